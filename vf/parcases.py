"""Thunk families for sched/parallel.py: each thunk builds and uses its OWN auditok objects and returns a
comparable summary of everything it observed.  Threads deliberately use the SAME parameters, shapes and
sizes (so that a cache keyed on them is shared) but DIFFERENT data (so that sharing is visible)."""

import os
import random
import wave

import auditok
from auditok.core import StreamTokenizer
from auditok.util import AudioEnergyValidator, AudioReader, make_duration_formatter

from . import audiocommon as AC
from . import tok
from .gen import audio as A
from .gen import validity as G
from .sched import parallel as PP


def _split_thunks(rng, tmpdir):
    """split() on different audio with identical parameters, regions pulled one by one."""
    base = AC.random_split_case(rng, max_windows=14, small_rate=True, allow_partial=False)
    thunks, desc = [], {"family": "split", "case": {k: base[k] for k in ("rate", "width", "channels", "block", "min_len", "max_len", "max_sil", "thr", "uc")}}
    for i in range(rng.choice((2, 2, 3))):
        case = dict(base, pcm_seed=rng.getrandbits(48))
        case["v"] = list(G.structured_random(rng, (case["min_len"], case["max_len"], case["max_sil"], 0, 0, 0), 14)) or [1, 1]
        built = AC.build_audio(case)
        if built is None:
            return None, None
        data = built[0]
        kw = dict(AC.split_kwargs(case), **AC.audio_kwargs(case))
        how = i % 3

        def th(data=data, kw=kw, how=how, case=case):
            if how == 0:
                regs = list(auditok.split(data, **kw))
            elif how == 1:
                region = auditok.AudioRegion(data, case["rate"], case["width"], case["channels"])
                regs = list(region.split(**{k: v for k, v in kw.items() if k not in ("sampling_rate", "sample_width", "channels")}))
            else:
                rd = AudioReader(data, block_dur=case["w"], **AC.audio_kwargs(case))
                regs = list(auditok.split(rd, **{k: v for k, v in kw.items() if k not in ("sampling_rate", "sample_width", "channels", "analysis_window")}))
            return [(r.start, r.end, bytes(r)) for r in regs]

        thunks.append(th)
    return thunks, desc


def _tokenizer_thunks(rng, tmpdir):
    params = G.random_params(rng, 6)
    kind = rng.choice(tok.KIND_NAMES)
    thunks = []
    for i in range(rng.choice((2, 3))):
        v = G.structured_random(rng, params, 30)
        mode = tok.DELIVERY[i % 3]

        def th(v=v, mode=mode):
            frames, validator = tok.FRAME_KINDS[kind](v)
            tk = tok.make_tokenizer(validator, params)
            out = tok.deliver(tk, tok.CountingSource(frames), mode)
            pos = {id(f): n for n, f in enumerate(frames)}
            return [([pos.get(id(f), -1) for f in t[0]], t[1], t[2]) for t in out]

        thunks.append(th)
    return thunks, {"family": "tokenizer", "params": list(params), "kind": kind}


def _validator_thunks(rng, tmpdir):
    width = rng.choice((1, 2, 4))
    channels = rng.choice((1, 2, 3))
    n = rng.choice((4, 16, 50))
    uc = rng.choice((None, "mix", 0, -1)) if channels > 1 else None
    lo, hi = A.THR_RANGE[width]
    thr = round(rng.uniform(lo, hi), 1)
    thunks = []
    for i in range(rng.choice((2, 3))):
        r2 = random.Random(rng.getrandbits(32))
        wins = []
        for k in range(10):
            if (k + i) % 2:
                wins.append(bytes(n * width * channels))  # digital silence
            else:
                wins.append(A.random_pcm(r2, n, width, channels))

        def th(wins=wins):
            val = AudioEnergyValidator(thr, width, channels, use_channel=uc)
            return [bool(val.is_valid(w)) for w in wins]

        thunks.append(th)
    return thunks, {"family": "validator", "width": width, "channels": channels, "window_samples": n, "uc": uc, "thr": thr}


def _reader_thunks(rng, tmpdir):
    rate, width, channels = A.random_format(rng, small=True)
    block = rng.choice((2, 3, 5))
    hop = rng.choice((block, block, max(1, block - 1), 1))
    record = rng.random() < 0.5
    mr = rng.choice((None, None, 7 / rate, 100.0))
    thunks = []
    for i in range(rng.choice((2, 3))):
        data = A.random_pcm(random.Random(rng.getrandbits(32)), rng.randint(0, 4 * block + 3), width, channels)

        def th(data=data):
            kw = dict(block_dur=block / rate, sampling_rate=rate, sample_width=width, channels=channels, record=record)
            if hop != block:
                kw["hop_dur"] = hop / rate
            if mr is not None:
                kw["max_read"] = mr
            rd = AudioReader(data, **kw)
            rd.open()
            out = []
            for _ in range(40):
                b = rd.read()
                out.append(b)
                if b is None:
                    break
            if record:
                rd.rewind()
                out.append(("data", bytes(rd.data)))
                for _ in range(40):
                    b = rd.read()
                    out.append(b)
                    if b is None:
                        break
            rd.close()
            return out

        thunks.append(th)
    return thunks, {"family": "reader", "fmt": [rate, width, channels], "block": block, "hop": hop, "record": record, "max_read": mr}


def _source_thunks(rng, tmpdir):
    rate, width, channels = A.random_format(rng, small=True)
    bps = width * channels
    thunks = []
    for i in range(rng.choice((2, 3))):
        data = A.random_pcm(random.Random(rng.getrandbits(32)), rng.randint(1, 30), width, channels)
        kind = ("buffer", "raw", "wav")[i % 3]
        path = os.path.join(tmpdir, f"par-src-{i}.{('raw' if kind == 'raw' else 'wav')}")
        if kind == "raw":
            with open(path, "wb") as fp:
                fp.write(data)
        elif kind == "wav":
            with wave.open(path, "wb") as fp:
                fp.setframerate(rate), fp.setsampwidth(width), fp.setnchannels(channels)
                fp.writeframes(data)
        sizes = [rng.randint(1, 7) for _ in range(12)]

        def th(data=data, kind=kind, path=path, sizes=sizes):
            if kind == "buffer":
                src = auditok.io.BufferAudioSource(data, rate, width, channels)
            elif kind == "raw":
                src = auditok.io.RawAudioSource(path, rate, width, channels)
            else:
                src = auditok.io.WaveAudioSource(path)
            src.open()
            out = [src.read(n) for n in sizes]
            if kind == "buffer":
                src.position = len(data) // bps // 2
                out.append(("pos", src.position, src.read(3)))
            src.close()
            return out

        thunks.append(th)
    return thunks, {"family": "source", "fmt": [rate, width, channels]}


def _region_thunks(rng, tmpdir):
    rate, width, channels = A.random_format(rng, small=True)
    n = rng.randint(4, 30)
    thunks = []
    # the SAME silence durations, slice bounds and divisor in every thread (a cache keyed on them is then shared), different audio
    a, b = rng.randint(-n - 2, n + 2), rng.randint(-n - 2, n + 2)
    ds = [rng.choice((0.1, 3 / rate, 2.5 / rate, 7 / rate, 0.3)) for _ in range(5)]
    d = ds[0]
    for i in range(rng.choice((2, 3))):
        r2 = random.Random(rng.getrandbits(32))
        data = A.random_pcm(r2, n, width, channels)
        other = A.random_pcm(r2, rng.randint(1, 9), width, channels)

        def th(data=data, other=other):
            r = auditok.AudioRegion(data, rate, width, channels)
            o = auditok.AudioRegion(other, rate, width, channels)
            sil = auditok.make_silence(d, rate, width, channels)
            out = [bytes(r[a:b]), bytes(r.sec[a / rate : None]), bytes(r.ms[: abs(b) * 1000 // rate]), bytes(r + o), bytes(r * 2), [bytes(x) for x in r / 3],
                   bytes(sil.join([r, o, r])), len(sil), bytes(sil), r == o, r == auditok.AudioRegion(data, rate, width, channels), bytes(sum([o, r], r))]
            out.append(r.numpy().tolist())
            for dd in ds:
                z = auditok.make_silence(dd, rate, width, channels)
                out.append((len(z), bytes(z) == bytes(len(z) * width * channels)))
            return out

        thunks.append(th)
    return thunks, {"family": "region", "fmt": [rate, width, channels], "n": n, "slice": [a, b], "silence": d}


def _file_thunks(rng, tmpdir):
    rate, width, channels = A.random_format(rng, small=True)
    template = rng.choice(("p_{start}_{end}_{duration}.wav", "q_{start:.3f}-{end:.3f}.raw", "r_{duration:.2f}_{start}.wav", "s_{end}_{start}.raw"))
    thunks = []
    for i in range(rng.choice((2, 3))):
        data = A.random_pcm(random.Random(rng.getrandbits(32)), rng.randint(1, 30), width, channels)
        start = round(rng.uniform(0, 50), rng.choice((0, 1, 3)))
        sub = os.path.join(tmpdir, f"par-{i}")
        os.makedirs(sub, exist_ok=True)

        def th(data=data, start=start, sub=sub):
            r = auditok.AudioRegion(data, rate, width, channels, start=start)
            name = r.save(os.path.join(sub, template))
            with open(name, "rb") as fp:
                raw = fp.read()
            back = auditok.load(name, sampling_rate=rate, sample_width=width, channels=channels)
            return os.path.basename(name), raw[-len(data):] == data, bytes(back) == data, (back.sampling_rate, back.sample_width, back.channels)

        thunks.append(th)
    return thunks, {"family": "file", "fmt": [rate, width, channels], "template": template}


def _formatter_thunks(rng, tmpdir):
    fmts = ["%S", "%I", "%h:%m:%s.%i", "%m:%s.%i", "%h-%m-%s-%i"]
    rng.shuffle(fmts)
    thunks = []
    same = rng.random() < 0.6
    for i in range(rng.choice((2, 3))):
        fmt = fmts[0] if same else fmts[i]
        xs = [round(rng.uniform(0, 5000), rng.choice((0, 2, 3, 4))) for _ in range(12)]

        def th(fmt=fmt, xs=xs):
            f = make_duration_formatter(fmt)
            return [f(x) for x in xs]

        thunks.append(th)
    return thunks, {"family": "formatter"}


def _shared_region_thunks(rng, tmpdir):
    """ONE region (regions are immutable) sliced by several threads through its seconds / milliseconds views and by samples,
    each thread asking for its own windows"""
    rate = rng.choice((8, 10, 100, 1000))
    width, channels = rng.choice(((1, 1), (2, 1), (2, 2)))
    n = rng.randint(20, 60)
    data = A.random_pcm(random.Random(rng.getrandbits(32)), n, width, channels)
    shared = {}

    def setup():
        shared["region"] = auditok.AudioRegion(data, rate, width, channels)

    setup()
    thunks = []
    for i in range(rng.choice((2, 3))):
        wins = [(rng.randint(0, n), rng.randint(0, n)) for _ in range(8)]

        def th(wins=wins):
            region = shared["region"]
            out = []
            for _ in range(3):
                for a, b in wins:
                    out.append((bytes(region.sec[a / rate : b / rate]), bytes(region.ms[1000 * a // rate : 1000 * b // rate]), bytes(region[a:b])))
            return out

        thunks.append(th)
    return thunks, {"family": "shared_region", "fmt": [rate, width, channels], "n": n, "_setup": setup}


def _shared_validator_thunks(rng, tmpdir):
    """ONE validator object judging different windows from several threads (its verdict is a function of the window)"""
    width = rng.choice((1, 2, 4))
    channels = rng.choice((1, 2, 3))
    n = rng.choice((4, 16, 50))
    uc = rng.choice((None, "mix", 0, -1)) if channels > 1 else None
    lo, hi = A.THR_RANGE[width]
    thr = round(rng.uniform(lo, hi), 1)
    shared = {}

    def setup():
        shared["val"] = AudioEnergyValidator(thr, width, channels, use_channel=uc)

    setup()
    thunks = []
    for i in range(rng.choice((2, 3))):
        r2 = random.Random(rng.getrandbits(32))
        wins = [bytes(n * width * channels) if (k + i) % 2 else A.random_pcm(r2, n, width, channels) for k in range(12)]

        def th(wins=wins):
            val = shared["val"]
            return [bool(val.is_valid(w)) for w in wins]

        thunks.append(th)
    return thunks, {"family": "shared_validator", "width": width, "channels": channels, "window_samples": n, "uc": uc, "_setup": setup}


FAMILIES = {
    "split": _split_thunks, "tokenizer": _tokenizer_thunks, "validator": _validator_thunks, "reader": _reader_thunks,
    "source": _source_thunks, "region": _region_thunks, "file": _file_thunks, "formatter": _formatter_thunks,
    "shared_region": _shared_region_thunks, "shared_validator": _shared_validator_thunks,
}
BY_PROPERTY = {
    "C01": ("tokenizer",), "C02": ("tokenizer",), "C03": ("tokenizer",), "C04": ("tokenizer",), "C05": ("split",), "C06": ("split",),
    "C07": ("validator", "shared_validator", "split"), "C08": ("tokenizer", "split"), "C09": ("split",), "C10": ("reader",), "C11": ("source",),
    "C15": ("formatter",), "C16": ("region", "shared_region"), "C17": ("region",), "C18": ("file", "region"), "C19": ("reader",), "C20": ("validator", "shared_validator", "split", "tokenizer"),
}


def one_round(ctx, fam, gen_seed, tmpdir, real=False):
    thunks, desc = FAMILIES[fam](random.Random(gen_seed), tmpdir)
    if not thunks:
        return
    ctx.count("parallel_rounds_" + fam)
    setup = desc.pop("_setup", None)
    desc = dict(desc, parallel=True, threads=len(thunks), gen_seed=gen_seed)
    PP.check_parallel(ctx, fam, thunks, gen_seed ^ 0x5A5A, describe=desc, real=real, setup=setup)


def run(ctx, pid, rounds):
    """`rounds` interleaved executions of each thunk family that belongs to property `pid`."""
    import shutil
    import tempfile

    rng = ctx.rng("parallel")
    tmpdir = tempfile.mkdtemp(prefix="vf-par-")
    try:
        for fam in BY_PROPERTY[pid]:
            for i in range(rounds * {"validator": 4, "region": 2, "formatter": 2, "file": 2}.get(fam, 1)):
                one_round(ctx, fam, rng.getrandbits(32), tmpdir, real=(i % 4 == 0))
    finally:
        shutil.rmtree(tmpdir, ignore_errors=True)


def replay(ctx, case):
    import shutil
    import tempfile

    tmpdir = tempfile.mkdtemp(prefix="vf-par-")
    try:
        one_round(ctx, case["family"], case["gen_seed"], tmpdir, real=True)
    finally:
        shutil.rmtree(tmpdir, ignore_errors=True)
