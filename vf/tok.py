"""Shared harness around the real StreamTokenizer: instrumented source,
content-determined validators for every frame type, three delivery modes."""

import numpy as np

from auditok.core import StreamTokenizer
from auditok.util import DataSource, DataValidator


class CountingSource(DataSource):
    """Hands out frames[i] one per read(), then None; logs every call."""

    def __init__(self, frames, fault_at=None, fault_exc=None):
        self.frames = frames
        self.reads = 0  # read() calls that returned (a frame or None); a call that raised is counted in `faults`
        self.eos_returns = 0  # how many times None was handed out
        self.reads_after_eos = 0
        self.calls = 0  # every read() call, whatever its outcome
        self.faults = 0
        self.fault_at = fault_at  # the read() call (1-based) that raises once: a transient device / pipe error
        self.fault_exc = fault_exc
        self.fault_propagated = False
        self.validator_fault = False

    def read(self):
        self.calls += 1
        if self.fault_at is not None and self.calls == self.fault_at:
            self.faults += 1
            exc = self.fault_exc("injected source fault")
            exc.vf_injected = True
            raise exc
        self.reads += 1
        i = self.reads - 1 - self.eos_returns
        if self.eos_returns:
            self.reads_after_eos += 1
        if i < len(self.frames) and not self.eos_returns:
            return self.frames[i]
        self.eos_returns += 1
        return None


class SwitchingSource(CountingSource):
    """A source whose read() delegates to an implementation it re-points after k frames (a live phase followed by a cached
    phase - the state pattern auditok's own recorder uses).  read itself stays ONE callable: how often the tokenizer looks
    `source.read` up is its own business (no statement is about that)."""

    def __init__(self, frames, switch_after):
        super().__init__(frames)
        self.switch_after = switch_after
        self.switched = 0
        self._impl = self._read_live

    def read(self):
        return self._impl()

    def _read_live(self):
        f = CountingSource.read(self)
        if self.reads - self.eos_returns >= self.switch_after:
            self._impl = self._read_cached
            self.switched = 1
        return f

    def _read_cached(self):
        return CountingSource.read(self)


class _SeqBase(CountingSource):
    """A source that is ALSO a sequence / an iterable (an application class that keeps its packets in a list and offers
    indexing for its own purposes).  What it delivers as a data source is what read() returns - here: the frames after a
    header that iteration and indexing would show."""

    def __init__(self, frames, header):
        super().__init__(frames)
        self._all = list(header) + list(frames)
        self.iterated = 0

    def __len__(self):
        return len(self._all)


class _IterableSource(_SeqBase):
    def __iter__(self):
        self.iterated += 1
        return iter(self._all)


class _LegacySequenceSource(_SeqBase):
    # only __getitem__ + __len__: Python's legacy sequence iteration
    def __getitem__(self, i):
        self.iterated += 1
        return self._all[i]


def SequenceSource(frames, header, legacy):
    return (_LegacySequenceSource if legacy else _IterableSource)(frames, header)


class _UpperValidator(DataValidator):
    def is_valid(self, frame):
        return frame.isupper()


class _AttrValidator(DataValidator):
    def __init__(self, fn):
        self.fn = fn

    def is_valid(self, frame):
        return self.fn(frame)


class _Falsy:
    """A frame object that is falsy but is a perfectly good frame."""

    __slots__ = ("valid", "i")

    def __init__(self, i, valid):
        self.i = i
        self.valid = valid

    def __bool__(self):
        return False

    def __len__(self):
        return 0


def _mk_char(v):
    return ["A" if x else "a" for x in v], _UpperValidator()


def _mk_tuple(v):
    return [(i, bool(x)) for i, x in enumerate(v)], (lambda f: f[1])


def _mk_int01(v):
    # invalid frames are the falsy int 0
    return [1 if x else 0 for x in v], (lambda f: f == 1)


def _mk_falsy_valid(v):
    # VALID frames are falsy objects (0, "", b"", False, ()) rotating; invalid are truthy
    falsy = [0, "", b"", False, (), 0.0]
    return [falsy[i % len(falsy)] if x else ("x%d" % i) for i, x in enumerate(v)], (lambda f: not f)


def _mk_falsy_obj(v):
    return [_Falsy(i, bool(x)) for i, x in enumerate(v)], _AttrValidator(lambda f: f.valid)


def _mk_bytes(v):
    return [bytes([200, i % 256]) if x else bytes([0, i % 256]) for i, x in enumerate(v)], (lambda f: f[0] > 100)


def _mk_list(v):
    return [[i, int(x)] for i, x in enumerate(v)], (lambda f: f[1])  # returns 1/0, unhashable frames


def _mk_numpy(v):
    return [np.array([i, int(x)]) for i, x in enumerate(v)], (lambda f: f[1] == 1)  # numpy.bool_


def _mk_truthy_str(v):
    # validator returns truthy/falsy non-bools ("yes" / "")
    return [(i, "yes" if x else "") for i, x in enumerate(v)], _AttrValidator(lambda f: f[1])


def _mk_none_verdict(v):
    # a predicate without an explicit `return False`: invalid frames get None
    def pred(f):
        if f[1]:
            return True

    return [(i, bool(x)) for i, x in enumerate(v)], pred


def _mk_seq_frames(v):
    # frames that are themselves sequences of several items (blocks of samples, multi-character strings)
    return [("LOUD%d" % i) if x else ("quiet%d" % i) for i, x in enumerate(v)], (lambda f: f[0] == "L")


class _Packet:
    """A frame whose __eq__ answers True for None when its payload is missing (a lost packet record): still a frame."""

    __slots__ = ("i", "payload")

    def __init__(self, i, payload):
        self.i, self.payload = i, payload

    def __eq__(self, other):
        if other is None:
            return self.payload is None
        return isinstance(other, _Packet) and (self.i, self.payload) == (other.i, other.payload)

    def __hash__(self):
        return hash(self.i)


def _mk_eq_none(v):
    return [_Packet(i, ("data%d" % i) if x else None) for i, x in enumerate(v)], (lambda f: f.payload is not None)


FRAME_KINDS = {
    "char": _mk_char,
    "tuple": _mk_tuple,
    "int01": _mk_int01,
    "falsy_valid": _mk_falsy_valid,
    "falsy_obj": _mk_falsy_obj,
    "bytes": _mk_bytes,
    "list": _mk_list,
    "numpy": _mk_numpy,
    "truthy_str": _mk_truthy_str,
    "none_verdict": _mk_none_verdict,
    "seq_frames": _mk_seq_frames,
    "eq_none": _mk_eq_none,
}
KIND_NAMES = tuple(FRAME_KINDS)
DELIVERY = ("list", "generator", "callback")


GEN_FLAG = [True]  # how `generator=True` is spelled by the caller: True, 1, numpy.True_ (set per case by run())


DRESS = ("int", "np.int64", "np.int32", "np.int16", "np.uint8", "np.int8", "np.intp", "np.uint16", "IntEnum")


def dress(value, how):
    """the same whole number as another integer type a caller may legally hand over (what numpy computations and enums produce)"""
    if how == "int" or isinstance(value, bool):
        return value
    if how == "IntEnum":
        import enum

        return enum.IntEnum("N", {"V": value}).V
    ty = getattr(np, how.split(".")[1])
    info = np.iinfo(ty)
    return ty(value) if info.min <= value <= info.max else value


def make_tokenizer(validator, params, how="int"):
    min_len, max_len, max_sil, init_min, ims, mode = params
    if how != "int":
        min_len, max_len, max_sil, init_min, ims = (dress(x, how) for x in (min_len, max_len, max_sil, init_min, ims))
    return StreamTokenizer(validator, min_len, max_len, max_sil, init_min=init_min, init_max_silence=ims, mode=mode)


FAULTS = {"InterruptedError": InterruptedError, "BlockingIOError": BlockingIOError, "OSError": OSError, "TimeoutError": TimeoutError,
          "KeyboardInterrupt": KeyboardInterrupt, "RuntimeError": RuntimeError, "EOFError": EOFError, "ValueError": ValueError,
          "StopIteration": StopIteration, "MemoryError": MemoryError,
          # the errors a signal or a non-blocking descriptor really produces carry an errno
          "OSError-EINTR": (lambda msg: OSError(4, msg)), "OSError-EAGAIN": (lambda msg: OSError(11, msg)),
          "InterruptedError-EINTR": (lambda msg: InterruptedError(4, msg))}


def deliver(tokenizer, source, delivery, on_token=None, out=None):
    """Run one tokenization in the requested delivery mode.  on_token(token) is
    called at the instant each token reaches the consumer."""
    out = [] if out is None else out
    if delivery == "list":
        res = tokenizer.tokenize(source)
        for t in res:
            out.append(tuple(t))
            if on_token:
                on_token(t, late=True)
    elif delivery == "generator":
        flag = GEN_FLAG[0]
        for t in tokenizer.tokenize(source, generator=flag):
            out.append(tuple(t))
            if on_token:
                on_token(t, late=False)
    else:
        rets = (None, False, 0, True, "", [], "stop")

        def cb(data, start, end):
            out.append((data, start, end))
            if on_token:
                on_token((data, start, end), late=False)
            return rets[(start + end) % len(rets)]  # whatever a callback returns is its own business

        tokenizer.tokenize(source, callback=cb)
    return out


PRIOR_USES = ("complete-list", "complete-generator", "partial-suspended", "partial-closed", "never-started", "closed-during-second-use",
              "target-generator-created-first", "source-raised", "collected-mid-run")


def parse_delivery(delivery):
    """'generator|prior=AAaA|use=partial-closed|j=1' -> ('generator', prior validity tuple or None, use, j)"""
    parts = delivery.split("|")
    mode, prior, use, j = parts[0], None, None, 0
    for p in parts[1:]:
        k, _, val = p.partition("=")
        if k in ("fault", "vfault", "dress", "gen", "clone", "threads", "switch", "seq"):
            continue
        if k == "prior":
            prior = tuple(1 if c == "A" else 0 for c in val)
        elif k == "use":
            use = val
        elif k == "j":
            j = int(val)
    return mode, prior, use, j


class EarlierResultAltered(Exception):
    """The list returned by an earlier tokenize() call changed when the tokenizer was used again."""


def earlier_use(tk, v1, kind, use, j):
    """Use the tokenizer object on another stream first (C20: results must not depend on it)."""
    frames, _ = FRAME_KINDS[kind](v1)
    src = CountingSource(frames)
    if use == "source-raised":
        # the earlier use ended with an exception out of the source's read() (after j tokens' worth of stream, anywhere)
        src = CountingSource(frames, fault_at=1 + (j * 5 + len(frames) // 2) % (len(frames) + 1), fault_exc=(OSError, KeyboardInterrupt, RuntimeError)[j % 3])
        try:
            if j % 2:
                tk.tokenize(src)
            else:
                for _ in tk.tokenize(src, generator=True):
                    pass
        except BaseException as exc:
            if not getattr(exc, "vf_injected", False):
                raise
        return None
    if use == "complete-list":
        res = tk.tokenize(src)
        # the caller keeps this result: it must still be the same after the tokenizer is used again
        return ("held-result", res, [(list(t[0]), t[1], t[2]) for t in res])
    if use == "complete-generator":
        for _ in tk.tokenize(src, generator=True):
            pass
        return None
    g = tk.tokenize(src, generator=True)
    if use == "never-started":
        return g
    for _ in range(j):
        try:
            next(g)
        except StopIteration:
            break
    if use == "closed-during-second-use":
        return g  # closed by run() once the second use has delivered its first token
    if use == "partial-closed":
        g.close()
        return None
    return g  # partial-suspended: kept alive, never resumed


def run(v, params, kind="tuple", delivery="list", on_token=None):
    """-> (frames, tokens, source).  Exceptions propagate to the caller.
    `delivery` may carry an earlier use of the same tokenizer object (see parse_delivery)."""
    mode, prior, use, j = parse_delivery(delivery)
    frames, validator = FRAME_KINDS[kind](v)
    opts = dict(p.partition("=")[::2] for p in delivery.split("|")[1:])
    how = opts.get("dress", "int")
    GEN_FLAG[0] = {"1": 1, "np": np.True_, "int8": np.int8(1)}.get(opts.get("gen"), True)
    if "seq" in opts and not (prior is not None or "fault" in opts or "vfault" in opts):
        src = SequenceSource(frames, frames[: int(opts["seq"])] or frames[:1], legacy=int(opts["seq"]) % 2 == 0)
        tk = make_tokenizer(validator, params, how)
        tokens = deliver(tk, src, mode, on_token)
        return frames, tokens, src
    if "switch" in opts and not (prior is not None or "fault" in opts or "vfault" in opts):
        src = SwitchingSource(frames, int(opts["switch"]))
        tk = make_tokenizer(validator, params, how)
        tokens = deliver(tk, src, mode, on_token)
        return frames, tokens, src
    if "clone" in opts and not ("fault" in opts or "vfault" in opts):
        # the tokenizer in use is a COPY of a configured one (copy.copy / copy.deepcopy / a pickle round trip): same parameters,
        # same mode; and what the original delivered earlier stays what it was
        import copy
        import pickle

        original = make_tokenizer(validator, params, how)
        kind_ = opts["clone"].split("+")[0]
        # no statement says that tokenizers or validators can be copied: an object that refuses (a lambda cannot be pickled, a
        # validator may hold a lock) is used as it is; a copy that CAN be taken has to behave like the original
        try:
            if kind_ == "pickle":
                try:
                    tk = pickle.loads(pickle.dumps(original))
                except Exception:
                    tk = copy.deepcopy(original)
            else:
                tk = getattr(copy, kind_)(original)
        except Exception:
            tk = original
            held = None
            src = CountingSource(frames)
            return frames, deliver(tk, src, mode, on_token), src
        held = None
        if prior is not None and opts["clone"].endswith("+original-used-first"):
            # the copy is taken from the fresh tokenizer; then the original is used, then the copy
            frames1, _ = FRAME_KINDS[kind](prior)
            res = original.tokenize(CountingSource(frames1))
            held = (res, [(list(t[0]), t[1], t[2]) for t in res])
        src = CountingSource(frames)
        tokens = deliver(tk, src, mode, on_token)
        if held is not None:
            res, snap = held
            if len(res) != len(snap) or any(len(a[0]) != len(b[0]) or tuple(a[1:]) != tuple(b[1:]) or any(x is not y for x, y in zip(a[0], b[0])) for a, b in zip([tuple(t) for t in res], snap)):
                raise EarlierResultAltered(f"what the ORIGINAL tokenizer returned changed when its copy was used ({len(snap)} tokens then, {len(res)} now)")
        return frames, tokens, src
    if opts.get("threads") == "alternate" and mode == "generator":
        # successive next() calls on one generator come from two long-lived threads, one call at a time (a blocking generator
        # driven through an executor): no concurrency, only another thread
        from concurrent.futures import ThreadPoolExecutor

        tk = make_tokenizer(validator, params, how)
        src = CountingSource(frames)
        tokens = []
        with ThreadPoolExecutor(1) as ea, ThreadPoolExecutor(1) as eb:
            ea.submit(lambda: None).result(), eb.submit(lambda: None).result()
            if prior is not None:
                # one of the two threads has used this tokenizer before, for a complete run on another stream
                frames1, _ = FRAME_KINDS[kind](prior)
                eb.submit(tk.tokenize, CountingSource(frames1)).result()
            g = eb.submit(tk.tokenize, src, None, True).result()
            k = 0
            while True:
                try:
                    t = (ea if k % 2 == 0 else eb).submit(next, g).result()
                except StopIteration:
                    break
                tokens.append(tuple(t))
                k += 1
        return frames, tokens, src
    if use == "collected-mid-run" and prior is not None:
        # the earlier generator of this tokenizer was advanced, then abandoned inside a reference cycle; the cyclic collector
        # finalises it at an arbitrary moment - here: inside the source's read(), in the middle of the second run
        import gc

        tk = make_tokenizer(validator, params, how)
        frames1, _ = FRAME_KINDS[kind](prior)
        g = tk.tokenize(CountingSource(frames1), generator=True)
        for _ in range(max(1, j)):
            try:
                next(g)
            except StopIteration:
                break
        cell = {"g": g}
        cell["self"] = cell
        del g, cell
        at = 1 + (j * 3 + len(frames) // 2) % (len(frames) + 1)

        class CollectingSource(CountingSource):
            def read(self):
                if self.calls + 1 == at:
                    gc.collect()
                return CountingSource.read(self)

        was = gc.isenabled()
        gc.disable()
        try:
            src = CollectingSource(frames)
            tokens = deliver(tk, src, mode, on_token)
        finally:
            if was:
                gc.enable()
        return frames, tokens, src
    vfault = [p.partition("=")[2] for p in delivery.split("|")[1:] if p.startswith("vfault=")]
    if vfault:
        # 'vfault=K:Name': the validator raises Name on its K-th call, once (a model that times out on one window).  Either
        # the exception reaches the caller or the tokenizer carries on; what is handed out is bound by the properties that do
        # not need a verdict for that frame (C01 slices and order, C02 lengths).
        k, _, name = vfault[0].partition(":")
        inner = validator.is_valid if hasattr(validator, "is_valid") else validator
        state = {"calls": 0, "raised": 0}

        def flaky(frame):
            state["calls"] += 1
            if state["calls"] == int(k):
                state["raised"] += 1
                exc = FAULTS[name]("injected validator fault")
                exc.vf_injected = True
                raise exc
            return inner(frame)

        src = CountingSource(frames)
        tk = make_tokenizer(flaky, params, how)
        tokens = []
        try:
            deliver(tk, src, mode, on_token, out=tokens)
        except BaseException as exc:
            if not (getattr(exc, "vf_injected", False) or getattr(exc.__cause__ or exc.__context__, "vf_injected", False)):
                raise
            src.fault_propagated = True
        src.faults = state["raised"]
        src.validator_fault = True
        return frames, tokens, src
    fault = [p.partition("=")[2] for p in delivery.split("|")[1:] if p.startswith("fault=")]
    if fault:
        # 'fault=K:Name': the K-th read() call raises Name once; the call after it succeeds (a transient error).
        # Either the exception reaches the caller (then what was delivered before it is still bound by the properties)
        # or the tokenizer carries on (then the whole result is).
        k, _, name = fault[0].partition(":")
        src = CountingSource(frames, fault_at=int(k), fault_exc=FAULTS[name])
        tk = make_tokenizer(validator, params, how)
        tokens = []
        try:
            deliver(tk, src, mode, on_token, out=tokens)
        except BaseException as exc:
            if not (getattr(exc, "vf_injected", False) or getattr(exc.__cause__ or exc.__context__, "vf_injected", False)):
                raise
            src.fault_propagated = True
            src.fault_surfaced_as = type(exc).__name__
        return frames, tokens, src
    src = CountingSource(frames)
    tk = make_tokenizer(validator, params, how)
    if use == "target-generator-created-first" and prior is not None:
        # the generator for THIS stream is created first (not started), then the tokenizer does a complete run on another
        # stream, and only then is the generator consumed
        g = tk.tokenize(src, generator=True)
        frames1, _ = FRAME_KINDS[kind](prior)
        tk.tokenize(CountingSource(frames1))
        tokens = []
        for t in g:
            tokens.append(tuple(t))
            if on_token:
                on_token(t, late=False)
        return frames, tokens, src
    keep = earlier_use(tk, prior, kind, use, j) if prior is not None else None
    if use == "closed-during-second-use" and keep is not None:
        # the abandoned generator of the earlier use is finalised while the second run is under way (between two tokens)
        g2 = tk.tokenize(src, generator=True)
        tokens = []
        for t in g2:
            tokens.append(tuple(t))
            if keep is not None:
                keep.close()
                keep = None
        return frames, tokens, src
    tokens = deliver(tk, src, mode, on_token)
    if isinstance(keep, tuple) and keep and keep[0] == "held-result":
        _, res, snap = keep
        if len(res) != len(snap) or any(len(a[0]) != len(b[0]) or a[1:] != tuple(b[1:]) or any(x is not y for x, y in zip(a[0], b[0]))
                                        for a, b in zip([tuple(t) for t in res], snap)):
            raise EarlierResultAltered(f"earlier list result had {len(snap)} tokens, now {len(res)}")
    del keep
    return frames, tokens, src


def spans(tokens):
    return [(t[1], t[2]) for t in tokens]
