"""A virtual clock for the code under test.

None of the properties mentions time: a process can be descheduled, swapped out or stopped between any two statements,
so what the library delivers must not depend on what a clock says.  When an auditok module (core, util, io, workers,
signal - not the command line, whose wait loop C15 drives itself) has a module-level binding to the `time` module or to
one of its clock functions, the binding is replaced for the life of the check process by a clock that JUMPS: most
readings are a fraction of a millisecond apart, some are seconds, minutes or hours apart, and `sleep()` returns at once
(the slept time is added to the clock).  Wall-clock thresholds inside the library ("a read that took longer than 5 s",
"idle for 20 s") are thereby crossed in logical time, deterministically, instead of never.

On the pinned tree no such binding exists and nothing is substituted; `installed()` says what was."""

import random
import time as _real

_JUMPS = (0.0, 0.0002, 0.0005, 0.0, 0.001, 0.3, 1.5, 6.0, 11.0, 25.0, 61.0, 4000.0)


class VClock:
    def __init__(self, seed=0):
        self.offset = 0.0
        self.rng = random.Random(seed)
        self.readings = 0
        self.big_jumps = 0

    def _tick(self):
        self.readings += 1
        r = self.rng.random()
        if r < 0.12:
            j = self.rng.choice(_JUMPS[5:])
            self.big_jumps += 1
        else:
            j = self.rng.choice(_JUMPS[:5])
        self.offset += j

    def monotonic(self):
        self._tick()
        return _real.monotonic() + self.offset

    def perf_counter(self):
        self._tick()
        return _real.perf_counter() + self.offset

    def time(self):
        self._tick()
        return _real.time() + self.offset

    def monotonic_ns(self):
        return int(self.monotonic() * 1e9)

    def time_ns(self):
        return int(self.time() * 1e9)

    def sleep(self, s):
        try:
            self.offset += max(0.0, float(s))
        except Exception:
            pass
        _real.sleep(0)


CLOCK = VClock()
_INSTALLED = []


class _TimeShim:
    def __init__(self, clock):
        self.__dict__["_vf_clock"] = clock

    def __getattr__(self, name):
        c = self.__dict__["_vf_clock"]
        if name in ("monotonic", "perf_counter", "time", "sleep", "monotonic_ns", "time_ns"):
            return getattr(c, name)
        return getattr(_real, name)


def install(seed=0):
    """-> list of 'module.name' bindings that were replaced (empty on the pinned tree)."""
    import importlib

    CLOCK.rng = random.Random(seed)
    shim = _TimeShim(CLOCK)
    fns = {_real.monotonic: CLOCK.monotonic, _real.perf_counter: CLOCK.perf_counter, _real.time: CLOCK.time, _real.sleep: CLOCK.sleep,
           _real.monotonic_ns: CLOCK.monotonic_ns, _real.time_ns: CLOCK.time_ns}
    for modname in ("auditok.core", "auditok.util", "auditok.io", "auditok.workers", "auditok.signal"):
        try:
            m = importlib.import_module(modname)
        except Exception:
            continue
        for name, val in list(vars(m).items()):
            try:
                if val is _real:
                    setattr(m, name, shim)
                    _INSTALLED.append(f"{modname}.{name}")
                elif callable(val) and val in fns:
                    setattr(m, name, fns[val])
                    _INSTALLED.append(f"{modname}.{name}")
            except TypeError:
                continue
    return list(_INSTALLED)


def installed():
    return list(_INSTALLED)
