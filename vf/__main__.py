import argparse
import sys


def main():
    ap = argparse.ArgumentParser(prog="vf")
    sub = ap.add_subparsers(dest="cmd", required=True)
    c = sub.add_parser("check")
    c.add_argument("pid")
    c.add_argument("--tier", default="quick", choices=["quick", "thorough"])
    c.add_argument("--seed", type=int, default=None)
    c.add_argument("--keep", action="store_true")
    s = sub.add_parser("shard")
    s.add_argument("pid")
    s.add_argument("--tier", required=True)
    s.add_argument("--seed", type=int, required=True)
    s.add_argument("--shard", type=int, required=True)
    s.add_argument("--nshards", type=int, required=True)
    s.add_argument("--budget", type=float, required=True)
    s.add_argument("--out", required=True)
    r = sub.add_parser("replay")
    r.add_argument("path")
    sub.add_parser("selftest")
    a = sub.add_parser("all")
    a.add_argument("--tier", default="quick")
    args = ap.parse_args()

    from . import runner

    if args.cmd == "check":
        sys.exit(runner.check(args.pid, args.tier, args.seed, keep=args.keep))
    if args.cmd == "shard":
        runner.run_shard(args.pid.upper(), args.tier, args.seed, args.shard, args.nshards, args.budget, args.out)
        return
    if args.cmd == "replay":
        sys.exit(runner.replay(args.path))
    if args.cmd == "selftest":
        from . import selftest

        sys.exit(selftest.main())
    if args.cmd == "all":
        import json, os

        with open(os.path.join(runner.HOME, "MANIFEST.json")) as fp:
            man = json.load(fp)
        worst = 0
        for chk in man["checks"]:
            rc = runner.check(chk["property_id"], args.tier)
            worst = max(worst, rc)
        sys.exit(worst)


if __name__ == "__main__":
    main()
