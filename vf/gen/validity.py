"""Workload generators for validity strings and tokenizer parameter tuples."""

import itertools

MODES = (0, 2, 4, 6)  # NORMAL, STRICT_MIN_LENGTH, DROP_TRAILING_SILENCE, both


def param_tuples(max_max_len=4, init=False, init_max_len=None):
    """All accepted (min_len, max_len, max_sil, init_min, init_max_silence, mode)
    with max_len <= max_max_len.  init=False: init_min in {0}; init=True: the
    init-phase variants init_min in 2..max_len-1, init_max_silence in 0..2."""
    out = []
    for max_len in range(1, max_max_len + 1):
        for min_len in range(1, max_len + 1):
            for max_sil in range(0, max_len):
                for mode in MODES:
                    if not init:
                        out.append((min_len, max_len, max_sil, 0, 0, mode))
                    else:
                        for init_min in range(2, max_len):
                            for ims in (0, 1, 2):
                                out.append((min_len, max_len, max_sil, init_min, ims, mode))
    return out


def shortlex(max_len, min_len=0):
    """All validity strings over {0,1} up to max_len, shortest first."""
    for n in range(min_len, max_len + 1):
        for bits in itertools.product((0, 1), repeat=n):
            yield bits


def nth_string(index):
    """index -> validity string in shortlex order (0 -> ())."""
    n = 0
    while index >= (1 << n):
        index -= 1 << n
        n += 1
    return tuple((index >> (n - 1 - b)) & 1 for b in range(n))


def count_upto(L):
    return (1 << (L + 1)) - 1


def random_params(rng, max_max_len=12, init=None):
    max_len = rng.choice([1, 2, 3, 4, 5, 6, 7, 8, 10, 12][: max(1, min(10, max_max_len))])
    max_len = min(max_len, max_max_len)
    min_len = rng.randint(1, max_len)
    max_sil = rng.randint(0, max_len - 1)
    if rng.random() < 0.3:
        max_sil = min(max_sil, 1)
    mode = rng.choice(MODES)
    if init is None:
        init = rng.random() < 0.3
    if init and max_len >= 3:
        init_min = rng.randint(2, max_len - 1)
        ims = rng.randint(0, 3)
    else:
        init_min = rng.choice([0, 0, 1]) if max_len > 1 else 0
        ims = rng.choice([0, 0, 2])
    return (min_len, max_len, max_sil, init_min, ims, mode)


def structured_random(rng, params, max_frames=200):
    """Run-length encoded stream whose run lengths cluster around the critical
    values of the parameter tuple."""
    min_len, max_len, max_sil, init_min, ims, mode = params
    crit_valid = [1, 1, 2, min_len - 1, min_len, min_len + 1, max_len - 1, max_len, max_len + 1,
                  2 * max_len, 2 * max_len + 1, 3 * max_len - 1, init_min, init_min - 1, init_min + 1]
    crit_sil = [1, 1, max_sil - 1, max_sil, max_sil, max_sil + 1, max_sil + 1, max_sil + 2,
                ims, ims + 1, 2 * max_sil + 1]
    crit_valid = [x for x in crit_valid if x >= 1]
    crit_sil = [x for x in crit_sil if x >= 1]
    target = rng.choice([rng.randint(0, min(12, max_frames)), rng.randint(min(5, max_frames), min(40, max_frames)),
                         rng.randint(min(20, max_frames), max_frames)])
    v = []
    valid = rng.random() < 0.6
    while len(v) < target:
        if valid:
            r = rng.choice(crit_valid) if rng.random() < 0.8 else rng.randint(1, 3 * max_len + 2)
        else:
            r = rng.choice(crit_sil) if rng.random() < 0.8 else rng.randint(1, 2 * max_sil + 3)
        v.extend([1 if valid else 0] * r)
        valid = not valid
    if rng.random() < 0.5:
        v = v[:target]
    return tuple(v)


def recipes(params):
    """Explicit situations named in the properties (deterministic)."""
    min_len, max_len, max_sil, init_min, ims, mode = params
    V, S = (1,), (0,)
    out = []
    # silence straddling a cut at every offset on both sides
    for before in range(0, max_sil + 1):
        for after in range(0, max_sil + 2):
            lead = max_len - before
            if lead >= 1:
                out.append(V * lead + S * (before + after) + V * 2 + S * (max_sil + 2))
                out.append(S * 2 + V * lead + S * (before + after) + V)
    # cut token, gap, short burst (finding D1 shape)
    for gap in range(1, max_sil + 4):
        for burst in range(1, max(2, min_len) + 1):
            out.append(V * max_len + S * gap + V * burst)
            out.append(V * (max_len - min(max_sil, max_len - 1)) + S * (min(max_sil, max_len - 1) + gap) + V * burst + S * (max_sil + 1))
    # event ending exactly at end of stream; preceded by exactly max_sil+1 invalid frames
    for ln in (1, min_len - 1, min_len, max_len - 1, max_len, max_len + 1, 2 * max_len):
        if ln >= 1:
            out.append(S * 3 + V * ln)
            out.append(V * min_len + S * (max_sil + 1) + V * ln)
            out.append(V * min_len + S * max(max_sil, 1) + V * ln + S * max_sil)
    # initial phase long enough to reach max_len (finding D2 shape)
    if init_min > 1:
        for k in range(1, init_min + 1):
            for s in range(0, ims + 2):
                out.append(V * k + S * s + V * (max_len + 1) + S * (max_sil + 2) + V)
                out.append((V + S * min(s, 1)) * (max_len + 2) + V * 3)
                out.append(V + S * s + V + S * s + V * max_len)
    return out
