"""Audio synthesis: PCM whose per-window activity is known exactly."""

import struct

from ..models import energy as E

FORMATS_RATE = (8, 10, 16, 100, 1000, 8000, 16000, 44100, 11025, 22050, 32000, 48000, 96000, 192000)
LIM = {1: 127, 2: 32767, 4: 2147483647}
THR_RANGE = {1: (8.0, 34.0), 2: (12.0, 80.0), 4: (20.0, 170.0)}


def pack(samples, width):
    return struct.pack("<%d%s" % (len(samples), E.FMT[width]), *samples)


def amp_for_db(db):
    return 10 ** (db / 20.0)


def random_format(rng, small=False):
    width = rng.choice((1, 2, 2, 4))
    channels = rng.choice((1, 1, 2, 3, 4))
    rate = rng.choice((8, 10, 16, 100) if small else FORMATS_RATE)
    return rate, width, channels


def window(rng, n, width, channels, thr, loud, selector, margin=1.0):
    """n multi-channel samples (bytes) that the ENERGY model judges
    loud (>= thr+margin) or quiet (<= thr-margin) under `selector`."""
    lim = LIM[width]
    for _ in range(200):
        chans = []
        carrier = rng.randrange(channels)
        style = rng.random()
        for c in range(channels):
            if loud:
                if selector == ("any",):
                    is_loud = (c == carrier) or rng.random() < 0.3
                elif selector[0] == "idx":
                    is_loud = (c == selector[1]) or rng.random() < 0.3
                else:  # mix: all channels in phase so the mean stays loud
                    is_loud = True
            else:
                if selector[0] == "idx":
                    # other channels may be loud: only the selected one matters
                    is_loud = (c != selector[1]) and rng.random() < 0.5
                elif selector == ("mix",) and channels > 1 and style < 0.3:
                    is_loud = True  # loud but cancelling (handled below)
                else:
                    is_loud = False
            if is_loud:
                a = min(lim, max(1, int(amp_for_db(thr + margin + rng.uniform(0.5, 12.0)) * 1.2) + 1))
            else:
                a = max(0, min(lim, int(amp_for_db(thr - margin - rng.uniform(0.5, 20.0)) * 0.8)))
            if a == 0:
                ch = [0] * n
            elif rng.random() < 0.5:
                ch = [a if (i % 2 == 0) else -a for i in range(n)]
            else:
                ch = [rng.randint(int(a * 0.75), a) * rng.choice((-1, 1)) for _ in range(n)]
            chans.append(ch)
        if loud and selector == ("mix",) and channels > 1:
            chans = [list(chans[0]) for _ in range(channels)]  # identical => mean == channel
        if not loud and selector == ("mix",) and channels > 1 and style < 0.3:
            # cancelling pair: loud channels, silent mean
            base = chans[0]
            chans = [base if c % 2 == 0 else [-x for x in base] for c in range(channels)]
            if channels % 2:
                chans[-1] = [0] * n
        inter = [chans[c][i] for i in range(n) for c in range(channels)]
        data = pack(inter, width)
        db = E.window_db(data, width, channels, _sel_arg(selector))
        if (loud and db >= thr + margin) or (not loud and db <= thr - margin):
            return data, db
    raise RuntimeError("could not synthesize window")


def _sel_arg(selector):
    if selector == ("any",):
        return None
    if selector == ("mix",):
        return "mix"
    return selector[1]


def synth(rng, v, width, channels, block, thr, use_channel=None, partial_last=0, margin=1.0):
    """-> (bytes, dbs).  One window of `block` samples per entry of v; when
    partial_last>0 an extra final window of that many samples is appended
    (its activity = last entry of v is then the partial one)."""
    sel = E.norm_selector(use_channel, channels)
    parts, dbs = [], []
    for i, x in enumerate(v):
        n = block
        if partial_last and i == len(v) - 1:
            n = partial_last
        d, db = window(rng, n, width, channels, thr, bool(x), sel, margin)
        parts.append(d)
        dbs.append(db)
    return b"".join(parts), dbs


def wav_image(rng, nbytes):
    """exactly nbytes that form a complete, valid RIFF/WAVE file (44-byte PCM header + payload) - handed to the library as
    RAW samples: content that looks like something else must still be treated as what the caller says it is."""
    payload = nbytes - 44
    rate, width, channels = rng.choice(((44100, 1, 2), (8000, 2, 1), (16000, 2, 2), (22050, 1, 1)))
    payload_used = payload - payload % (width * channels)
    hdr = b"RIFF" + struct.pack("<I", 36 + payload_used) + b"WAVE" + b"fmt " + struct.pack("<IHHIIHH", 16, 1, channels, rate, rate * width * channels,
                                                                                          width * channels, 8 * width) + b"data" + struct.pack("<I", payload_used)
    return hdr + rng.randbytes(payload)


MAGIC_TEXTS = (b"STOP_PROCESSING", b"None", b"RIFF", b"\x00", b"EOF\n")


def random_pcm(rng, nsamples, width, channels):
    """random PCM; about one time in ten it is 'content that looks like something else': a complete wav-file image, a
    bare RIFF....WAVE prefix, a sentinel-like text tiled through the data, or nothing but the most negative sample value"""
    n = nsamples * width * channels
    r = rng.random()
    if r < 0.035 and n >= 46:
        return wav_image(rng, n)
    if r < 0.05 and n >= 12:
        return b"RIFF" + rng.randbytes(4) + b"WAVE" + rng.randbytes(n - 12)
    if r < 0.075 and n:
        t = rng.choice(MAGIC_TEXTS)
        return (t * (n // len(t) + 1))[:n]
    if r < 0.1 and n:
        lo = (1 << (8 * width - 1)).to_bytes(width, "little")  # -128 / -32768 / -2**31
        return b"".join(lo if rng.random() < 0.8 else bytes(width) for _ in range(nsamples * channels))
    return rng.randbytes(n)


def model_verdicts(data, width, channels, block, thr, use_channel=None, guard=1e-6):
    """Per-window verdicts of the ENERGY model; None if some window is within
    `guard` dB of the threshold (case must be regenerated)."""
    bps = width * channels
    out = []
    for off in range(0, len(data), block * bps):
        w = data[off : off + block * bps]
        db = E.window_db(w, width, channels, use_channel)
        if abs(db - thr) <= guard:
            return None
        out.append(1 if db >= thr else 0)
    return out


def random_bytes(rng, nsamples, width, channels, allow_bigger=True):
    """random_pcm, and - for small sizes, where a wav image would not fit - one time in twelve a size bumped to the next
    whole number of samples that can hold one.  -> bytes (len is a whole number of samples; may exceed nsamples)"""
    bps = width * channels
    if allow_bigger and nsamples * bps < 46 and rng.random() < 0.08:
        nsamples = -(-rng.randint(46, 120) // bps)
        return wav_image(rng, nsamples * bps)
    return random_pcm(rng, nsamples, width, channels)
