"""setup_cmd: imports every module, pins the reference models on hand-computed
cases, validates a dummy evidence record.  No network, nothing installed."""

import importlib
import json
import os
import pkgutil
import shutil
import subprocess
import sys


def _seg_cases():
    from .models.seg import seg

    def s(txt):
        return tuple(1 if c.isupper() else 0 for c in txt)

    T = [
        # (string, min, max, sil, strict, drop, expected)
        ("aaaAAAABBbbb", 3, 4, 0, False, False, [(3, 6), (7, 8)]),   # docstring example of StreamTokenizer
        ("aaaAAAABBbbb", 3, 4, 0, True, False, [(3, 6)]),
        ("aaaAAAaaaBBbbbb", 3, 6, 3, False, True, [(3, 8), (9, 10)]),
        ("aaaAAAaaaBBbbbb", 3, 6, 3, False, False, [(3, 8), (9, 13)]),
        ("AaaA", 2, 2, 1, False, False, [(0, 1)]),                  # D1: the late 'A' is a new, too short event
        ("aAaaA", 2, 2, 1, False, False, [(1, 2)]),
        ("", 1, 1, 0, False, False, []),
        ("A", 1, 1, 0, False, False, [(0, 0)]),
        ("AAAAA", 1, 2, 0, False, False, [(0, 1), (2, 3), (4, 4)]),
        ("AAAAA", 2, 2, 0, True, False, [(0, 1), (2, 3)]),
        ("AaAaaA", 1, 6, 1, False, False, [(0, 3), (5, 5)]),
        ("AaAaaA", 1, 6, 1, False, True, [(0, 2), (5, 5)]),
        ("AAaaaa", 1, 3, 2, False, False, [(0, 2)]),                 # remainder 'a' is all silence -> discarded
        ("AAaaAa", 1, 3, 2, False, False, [(0, 2), (3, 5)]),
    ]
    for txt, mn, mx, sil, strict, drop, exp in T:
        got = seg(s(txt), mn, mx, sil, strict, drop)
        assert got == exp, (txt, mn, mx, sil, strict, drop, got, exp)
    return len(T)


def main():
    import vf
    from . import evidence, runner

    n = 0
    for m in pkgutil.walk_packages(vf.__path__, "vf."):
        if m.name.endswith("pytest_plugin"):
            continue
        importlib.import_module(m.name)
        n += 1
    runner.assert_repo_tree()
    k = _seg_cases()
    extra = 0
    for name in ("win", "energy", "frame", "src", "region", "fmt"):
        try:
            mod = importlib.import_module("vf.models." + name)
        except ModuleNotFoundError:
            continue
        if hasattr(mod, "selftest"):
            extra += mod.selftest()
    ev = {"property_id": "C00", "tier": "quick", "seed": 0, "level": "exploration",
          "coverage": {"evaluations": 3, "distinct_nontrivial": 2, "rule": "dummy", "samples": [1]}, "wall_s": 0.1}
    assert not evidence.validate(ev)
    # cross-check MANIFEST / evidence against the real schemas when python3-vt + jsonschema exist
    vt = shutil.which("python3-vt")
    man = os.path.join(runner.HOME, "MANIFEST.json")
    if vt and os.path.exists("/root/.vp/MANIFEST.schema.json") and os.path.exists(man):
        code = ("import json,jsonschema,sys;"
                "jsonschema.validate(json.load(open(sys.argv[1])),json.load(open('/root/.vp/MANIFEST.schema.json')))")
        r = subprocess.run([vt, "-c", code, man], capture_output=True, text=True)
        if r.returncode != 0:
            print("MANIFEST.json does not validate:", r.stderr[-800:])
            return 1
    print(f"selftest ok: {n} modules imported, {k} SEG cases, {extra} other model cases, auditok from {runner.REPO}")
    return 0
