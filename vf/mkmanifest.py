"""Regenerate MANIFEST.json from the registry + the property modules present.
Usage: python -m vf.mkmanifest   (run from /verif through ./run-env or with PYTHONPATH set)"""

import importlib
import json
import os
import subprocess

from .registry import R

HOME = os.path.dirname(os.path.dirname(os.path.abspath(__file__)))
ALL = [f"C{i:02d}" for i in range(1, 21)]


def hook_commits():
    try:
        out = subprocess.run(["git", "-C", "/repo", "log", "--format=%H %s"], capture_output=True, text=True).stdout
    except Exception:
        return []
    return [ln.split()[0] for ln in out.splitlines() if " hook:" in ln or ln.split(" ", 1)[1].startswith("hook:")]


def main():
    checks, na = [], []
    for pid in ALL:
        try:
            mod = importlib.import_module("vf.props." + pid.lower())
        except ModuleNotFoundError:
            mod = None
        if mod is None or pid not in R:
            na.append({"property_id": pid, "reason": "check not built yet in this round (runtime monitoring applies; see DESIGN.md section 7)"})
            continue
        r = dict(R[pid])
        from . import parcases

        extra = " Process environments: one shard in eight runs under `python -O`, one with DEBUG logging on."
        if pid in parcases.BY_PROPERTY:
            extra = (" Several-threads workload: independent objects used from 2-3 threads interleaved by the deterministic scheduler at "
                     "statement / bytecode-instruction granularity inside every auditok module must give the single-threaded results.") + extra
        r["text"] = r["text"] + extra
        checks.append({
            "property_id": pid,
            "quick_cmd": f"./run {pid} quick",
            "thorough_cmd": f"./run {pid} thorough",
            "evidence_file": f"/verif/evidence/{pid}.json",
            "replay_cmd_template": "./run replay {path}",
            "engine": "vf",
            "level_claimed": {"category": r["category"], "text": r["text"], "design_ref": r["design_ref"]},
            "level_note": r["note"],
            "technique": r["technique"],
        })
    man = {
        "version": 1,
        "setup_cmd": "./run selftest",
        "hooks": {
            "guard": "AUDITOK_VERIF",
            "enable": "environment variable AUDITOK_VERIF=1 (set by ./run); the repository is imported from /repo's working tree via PYTHONPATH, nothing is built or installed",
            "baseline_off_cmd": "cd /repo && env -u AUDITOK_VERIF /venv/bin/python -m pytest -ra -q -p no:cacheprovider --timeout=900 --continue-on-collection-errors",
            "source_commits": hook_commits(),
            "add_only": True,
        },
        "engines": [{
            "name": "vf",
            "path": "/verif/vf",
            "serves_properties": [c["property_id"] for c in checks],
            "kind_free_text": "runtime monitoring: the real auditok code run under generated/hostile workloads with boundary "
                              "wrappers, reference-model oracles, a deterministic thread scheduler and history checkers; "
                              "stdlib + numpy only",
        }],
        "checks": checks,
        "notes": "Every check: ./run <ID> quick|thorough; exit 0 held / 1 VIOLATION / 2 INCONCLUSIVE. Evidence is rewritten on every "
                 "run. VERIF_SEED seeds all random choices. KNOWN_FINDINGS.txt lists fixed defects (none is suppressed).",
        "not_applicable": na,
    }
    with open(os.path.join(HOME, "MANIFEST.json"), "w") as fp:
        json.dump(man, fp, indent=1)
        fp.write("\n")
    print(f"MANIFEST.json: {len(checks)} checks, {len(na)} not_applicable")


if __name__ == "__main__":
    main()
