"""KNOWN_FINDINGS.txt: line-oriented, never written at run time.

  known: property=<id> key=<mechanism key> <what fails>     -> suppresses exactly that mechanism
  fixed: property=<id> <commit> <what failed>               -> suppresses nothing (history only)
"""

import os
import re


def load(path):
    known = {}
    if not os.path.exists(path):
        return known
    with open(path) as fp:
        for line in fp:
            line = line.strip()
            if not line or line.startswith("#"):
                continue
            m = re.match(r"known:\s+property=(\S+)\s+key=(\S+)\s*(.*)$", line)
            if m:
                known[(m.group(1), m.group(2))] = m.group(3)
    return known
