"""Shared harness for AudioReader framing (C10) and the recorder (C19)."""

import io
import os
import sys
import wave

from auditok import AudioReader, Recorder
from auditok.io import BufferAudioSource, RawAudioSource, WaveAudioSource

from .models import frame as F

SOURCE_KINDS = ("bytes", "buffer_obj", "raw_eager", "raw_lazy", "wav_eager", "wav_lazy", "raw_obj", "wav_obj", "stdin", "buffer_obj_preconsumed",
                "raw_fifo_lazy")
PRECONSUMED = 3  # samples already read from the source before the reader got it


class FakeStdin:
    class _Buf:
        def __init__(self, data):
            self._io = io.BytesIO(data)

        def read(self, n=-1):
            return self._io.read(n)

    def __init__(self, data):
        self.buffer = self._Buf(data)


def random_reader_case(rng, max_blocks=4, small=True):
    width = rng.choice((1, 2, 4))
    channels = rng.choice((1, 1, 2, 3))
    rate = rng.choice((4, 8, 10, 16, 100) if small else (8, 10, 100, 1000, 8000, 16000))
    block = rng.randint(1, 8) if small else rng.choice((1, 3, 10, 80, 160))
    hop = rng.choice((None, block, rng.randint(1, block)))
    nsamples = rng.choice((0, 0, rng.randint(1, max(1, block - 1)), block, rng.randint(0, max_blocks * block),
                           rng.randint(0, max_blocks * block), 2 * block, 2 * block + 1))
    magic = None
    if rng.random() < 0.05:
        # the raw audio IS a complete wav-file image (content that looks like something else)
        magic = "wav"
        nsamples = max(nsamples, -(-rng.randint(46, 90) // (width * channels)))
    mr_mode = rng.random()
    if mr_mode < 0.4:
        max_read_samples = None
    elif mr_mode < 0.5:
        max_read_samples = 0
    else:
        max_read_samples = rng.choice((rng.randint(0, nsamples + 2 * block), block, 2 * block, nsamples, nsamples + 1,
                                       rng.randint(0, max(1, nsamples)) + rng.choice((0.25, 0.4, 0.5, 0.6, 0.75))))
    # durations need not be whole samples: block_dur=(block+f)/rate floors to block; hop_dur may floor to the same count as block_dur
    bfrac = rng.choice((0, 0, 0, 0.25, 0.5, 0.75))
    hfrac = rng.choice((0, 0, 0, 0.25, 0.5)) if hop is not None else 0
    if hop is not None and (hop + hfrac) / rate > (block + bfrac) / rate:
        hfrac = 0
        if hop == block:
            bfrac = max(bfrac, 0)
    kind = rng.choice(SOURCE_KINDS)
    record = rng.random() < 0.3
    if kind == "raw_fifo_lazy":
        record = False  # a named pipe cannot be opened a second time once its writer is gone
    return dict(bfrac=bfrac, hfrac=hfrac, width=width, channels=channels, rate=rate, block=block, hop=hop, nsamples=nsamples,
                max_read_samples=max_read_samples, kind=kind, extra_reads=rng.randint(1, 5),
                record=record, seed=rng.getrandbits(32), magic=magic)


def audio_of(case):
    import random

    from .gen import audio as A

    if case.get("magic") == "wav":
        return A.wav_image(random.Random(case["seed"]), case["nsamples"] * case["width"] * case["channels"])
    return A.random_pcm(random.Random(case["seed"]), case["nsamples"], case["width"], case["channels"])


def effective_data(case, data):
    """what the reader built for this case can see of `data`"""
    if case["kind"] == "buffer_obj_preconsumed":
        return data[PRECONSUMED * case["width"] * case["channels"] :]
    return data


def durations_of(case):
    rate = case["rate"]
    block_dur = (case["block"] + case.get("bfrac", 0)) / rate
    hop_dur = None if case["hop"] is None else (case["hop"] + case.get("hfrac", 0)) / rate
    if hop_dur is not None and hop_dur > block_dur:
        hop_dur = block_dur
    mr = case["max_read_samples"]
    max_read = None if mr is None else mr / rate
    return block_dur, hop_dur, max_read


class Built:
    pass


def build_reader(case, data, tmpdir, cls=AudioReader, record=None):
    """Construct the AudioReader for the case's source kind. -> (reader, cleanup)"""
    block_dur, hop_dur, max_read = durations_of(case)
    rate, width, channels = case["rate"], case["width"], case["channels"]
    kind = case["kind"]
    kw = dict(block_dur=block_dur, hop_dur=hop_dur, max_read=max_read)
    if cls is AudioReader:
        kw["record"] = case["record"] if record is None else record
    if case["seed"] % 4 == 2:
        # the documented positional order: AudioReader(input, block_dur, hop_dur, record, max_read), Recorder(input, block_dur, hop_dur, max_read)
        real_cls, kw_ = cls, kw
        pos = (kw_["block_dur"], kw_["hop_dur"], kw_["record"], kw_["max_read"]) if cls is AudioReader else (kw_["block_dur"], kw_["hop_dur"], kw_["max_read"])

        def cls(input_, **rest):
            for k in ("block_dur", "hop_dur", "max_read", "record"):
                rest.pop(k, None)
            return real_cls(input_, *pos, **rest)

    ap = dict(sampling_rate=rate, sample_width=width, channels=channels)
    old_stdin = sys.stdin

    def cleanup():
        sys.stdin = old_stdin

    if kind == "bytes":
        return cls(data, **kw, **ap), cleanup
    if kind == "buffer_obj":
        return cls(BufferAudioSource(data, rate, width, channels), **kw), cleanup
    if kind == "buffer_obj_preconsumed":
        # the source is already open and PRECONSUMED samples into its data: the reader sees the rest (callers pass the full
        # data; effective_data() gives what the reader can see)
        src = BufferAudioSource(data, rate, width, channels)
        src.open()
        src.read(PRECONSUMED)
        return cls(src, **kw), cleanup
    if kind in ("raw_eager", "raw_lazy", "raw_obj"):
        path = os.path.join(tmpdir, "in.raw")
        with open(path, "wb") as fp:
            fp.write(data)
        if kind == "raw_obj":
            return cls(RawAudioSource(path, rate, width, channels), **kw), cleanup
        return cls(path, large_file=(kind == "raw_lazy"), audio_format="raw", **kw, **ap), cleanup
    if kind == "raw_fifo_lazy":
        # the "raw file" is a named pipe fed in bursts smaller than a block
        import random
        import threading
        import time as _time

        path = os.path.join(tmpdir, "in.fifo")
        if os.path.exists(path):
            os.unlink(path)
        os.mkfifo(path)
        r_ = random.Random(case["seed"])
        chunks, i = [], 0
        while i < len(data):
            k = r_.randint(1, max(1, min(7, case["block"] * width * channels - 1)))
            chunks.append(data[i : i + k])
            i += k

        def feed():
            try:
                with open(path, "wb", buffering=0) as w:
                    for c in chunks:
                        w.write(c)
                        _time.sleep(0)
            except OSError:
                pass

        th = threading.Thread(target=feed, daemon=True, name="vf-fifo-feeder")
        th.start()

        def cleanup_fifo():
            fd = None
            try:
                fd = os.open(path, os.O_RDONLY | os.O_NONBLOCK)  # a reader exists until the writer is through (its data fits the pipe)
            except OSError:
                pass
            th.join(5)
            if fd is not None:
                os.close(fd)
            sys.stdin = old_stdin

        try:
            return cls(path, large_file=True, audio_format="raw", **kw, **ap), cleanup_fifo
        except Exception:
            cleanup_fifo()
            raise
    if kind in ("wav_eager", "wav_lazy", "wav_obj"):
        path = os.path.join(tmpdir, "in.wav")
        with wave.open(path, "wb") as fp:
            fp.setframerate(rate)
            fp.setsampwidth(width)
            fp.setnchannels(channels)
            fp.writeframes(data)
        if kind == "wav_obj":
            return cls(WaveAudioSource(path), **kw), cleanup
        return cls(path, large_file=(kind == "wav_lazy"), **kw), cleanup
    if kind in ("live_obj", "app_obj"):
        return cls(_app_source(kind, data, rate, width, channels), **kw), cleanup
    if kind == "stdin":
        import random

        from .stdin import PipeStdin

        # a real pipe (BufferedReader + fileno), fed by a slow producer in chunks smaller than a block
        if case["seed"] % 4 == 1:
            ps = PipeStdin(data, random.Random(case["seed"]), header=b"#pcm stream follows\n")
            ps.consume_header()  # the application read a header line through the buffered layer first
        else:
            ps = PipeStdin(data, random.Random(case["seed"]), max_chunk=max(1, min(7, case["block"] * width * channels - 1)))
        sys.stdin = ps

        def cleanup_pipe():
            sys.stdin = old_stdin
            ps.close()

        try:
            return cls("-", **kw, **ap), cleanup_pipe
        except Exception:
            cleanup_pipe()
            raise
    raise ValueError(kind)


def _app_source(kind, data, rate, width, channels):
    """sources written by an application on the public AudioSource / BufferAudioSource base classes"""
    from auditok.io import AudioSource

    if kind == "live_obj":

        class LiveSource(AudioSource):
            """a device-like stream: closing and opening it again does not move it (pause / resume)"""

            def __init__(self):
                super().__init__(rate, width, channels)
                self._stream = io.BytesIO(data)
                self._opened = False

            def is_open(self):
                return self._opened

            def open(self):
                self._opened = True

            def close(self):
                self._opened = False

            def read(self, size):
                if not self._opened:
                    raise IOError("stream is closed")
                return self._stream.read(size * width * channels) or None

        return LiveSource()

    class AppSource(BufferAudioSource):
        """an application's own source class with its own idea of being rewindable, recording, ..."""

        rewindable = True
        record = True
        recording = True

    return AppSource(data, rate, width, channels)


def expected_blocks(case, data, reader):
    """-> (list of candidate block-lists as bytes, problems) using the FRAME model.
    block/hop sizes are taken from the candidates admitted by the statement and
    must match what the reader reports."""
    bps = case["width"] * case["channels"]
    block_dur, hop_dur, max_read = durations_of(case)
    probs = []
    bc = F.size_candidates(block_dur, case["rate"])
    if reader.block_size not in bc:
        probs.append(("block_size-not-floor(block_dur*rate)", {"block_size": reader.block_size, "admissible": sorted(bc)}))
    block = reader.block_size
    if hop_dur is None:
        hop = block
    else:
        hc = F.size_candidates(hop_dur, case["rate"])
        hop = reader.hop_size
        if hop not in hc:
            probs.append(("hop_size-not-floor(hop_dur*rate)", {"hop_size": hop, "admissible": sorted(hc)}))
    if abs(reader.block_dur - block / case["rate"]) > 1e-12:
        probs.append(("block_dur-not-block_size-over-rate", {"block_dur": reader.block_dur, "block_size": block}))
    cands = []
    for vis in sorted(F.visible_candidates(len(data) // bps, case["rate"], max_read)):
        cands.append((vis, [data[a * bps : b * bps] for a, b in F.blocks(vis, block, hop)]))
    return cands, probs
