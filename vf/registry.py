"""Per-property manifest texts (level claimed, trusted base, deciding technique)."""

R = {}


def reg(pid, text, note, technique, design_ref, category="exploration"):
    R[pid] = dict(category=category, text=text, note=note, technique=technique, design_ref=design_ref)


reg("C01",
    "Runtime monitor (INV/C01) over executions of the real StreamTokenizer: bounded-exhaustive small scope (all validity "
    "strings up to L x all accepted tuples with max_length<=4 incl. init-phase variants) plus recipes and structured random "
    "long streams, across 9 frame types / validator kinds and 3 delivery modes. Index bookkeeping bugs live in small scopes, "
    "so an exhaustive core plus random depth is the right level; no claim beyond the executions observed.",
    "Trusts: CPython, the harness' instrumented DataSource, content-determined validators. Not covered: stateful validators, infinite streams.",
    "runtime monitoring: invariant oracle on recorded source reads and delivered tokens", "DESIGN.md section 7 C01")
reg("C02",
    "Runtime monitor (INV/C02) on token lengths/adjacency over the C01 workload, plus the constructor accept/reject decision "
    "checked exhaustively on a 328050-tuple integer grid against the statement's predicate.",
    "Trusts: 'a token of exactly max_length frames was cut' (holds for any tokenizer that cuts on reaching max_length). Grid bounded to [-2,6].",
    "runtime monitoring: invariant oracle on delivered tokens + exhaustive constructor grid", "DESIGN.md section 7 C02")
reg("C03",
    "Runtime monitor (INV/C03) on the validity of frames inside every delivered token, silence run carried across a cut, "
    "over the C01 workload with straddling-silence recipes in all four modes.",
    "Trusts: validity pattern == verdicts received (pure validators); continuation recognised from observable data.",
    "runtime monitoring: invariant oracle on token contents vs recorded verdicts", "DESIGN.md section 7 C03")
reg("C04",
    "Reference-model monitor: whole token list of the real tokenizer compared with a declarative 30-line segmentation model "
    "(SEG) on an exhaustive small scope (strings up to L x 120 tuples) plus recipes and random long streams. Strongest "
    "tokenizer check; a lost/shortened/invented/shifted token is reported with its mechanism.",
    "Trusts: SEG as the reading of the statement (selftest pins it on hand-computed cases). init_min<=1 only, as the property states.",
    "runtime monitoring: executable reference model vs observed output", "DESIGN.md section 7 C04")
