"""Per-property manifest texts (level claimed, trusted base, deciding technique)."""

R = {}


def reg(pid, text, note, technique, design_ref, category="exploration"):
    R[pid] = dict(category=category, text=text, note=note, technique=technique, design_ref=design_ref)


reg("C01",
    "Runtime monitor (INV/C01) over executions of the real StreamTokenizer: bounded-exhaustive small scope (all validity "
    "strings up to L x all accepted tuples with max_length<=4 incl. init-phase variants) plus recipes and structured random "
    "long streams, across 9 frame types / validator kinds and 3 delivery modes. Index bookkeeping bugs live in small scopes, "
    "so an exhaustive core plus random depth is the right level; no claim beyond the executions observed.",
    "Trusts: CPython, the harness' instrumented DataSource, content-determined validators. Not covered: stateful validators, infinite streams.",
    "runtime monitoring: invariant oracle on recorded source reads and delivered tokens", "DESIGN.md section 7 C01")
reg("C02",
    "Runtime monitor (INV/C02) on token lengths/adjacency over the C01 workload, plus the constructor accept/reject decision "
    "checked exhaustively on a 328050-tuple integer grid against the statement's predicate.",
    "Trusts: 'a token of exactly max_length frames was cut' (holds for any tokenizer that cuts on reaching max_length). Grid bounded to [-2,6].",
    "runtime monitoring: invariant oracle on delivered tokens + exhaustive constructor grid", "DESIGN.md section 7 C02")
reg("C03",
    "Runtime monitor (INV/C03) on the validity of frames inside every delivered token, silence run carried across a cut, "
    "over the C01 workload with straddling-silence recipes in all four modes.",
    "Trusts: validity pattern == verdicts received (pure validators); continuation recognised from observable data.",
    "runtime monitoring: invariant oracle on token contents vs recorded verdicts", "DESIGN.md section 7 C03")
reg("C04",
    "Reference-model monitor: whole token list of the real tokenizer compared with a declarative 30-line segmentation model "
    "(SEG) on an exhaustive small scope (strings up to L x 120 tuples) plus recipes and random long streams. Strongest "
    "tokenizer check; a lost/shortened/invented/shifted token is reported with its mechanism.",
    "Trusts: SEG as the reading of the statement (selftest pins it on hand-computed cases). init_min<=1 only, as the property states.",
    "runtime monitoring: executable reference model vs observed output", "DESIGN.md section 7 C04")
reg("C05",
    "End-to-end reference-model monitor on split()/AudioRegion.split(): synthesized and random PCM over all widths, channel "
    "counts, selectors, modes, partial last windows and non-integral w*rate; every region's bytes, times, parameters and "
    "order are checked against the input and the region list against ENERGY->SEG.",
    "Trusts: ENERGY and SEG models; durations placed away from rounding boundaries (C06 covers those); 1e-6 dB guard band (C07 covers the boundary).",
    "runtime monitoring: reference model + byte-exact oracle on regions yielded by split()", "DESIGN.md section 7 C05")
reg("C06",
    "Runtime oracle on split()'s ValueError/accept decision over an exhaustive literal grid of decimal durations x windows x "
    "rates (incl. zero/negative/sub-sample), and on which isolated bursts are reported for accepted tuples (WIN exact-rational "
    "counts -> SEG), with model-free crisp sub-checks at exactly ceil(min_dur/w) and floor(max_dur/w).",
    "Trusts: WIN model (Fractions on the exact doubles, the statement's 1e-9 rule). The band between the code's 1e-10 epsilon and the statement's 1e-9 is never generated.",
    "runtime monitoring: exact-rational reference model vs observed accept/reject and reported bursts", "DESIGN.md section 7 C06")
reg("C07",
    "Runtime oracle on AudioEnergyValidator.is_valid over generated windows x thresholds x selectors, exact Fraction energy "
    "model; boundary decided against the implementation's own energy recorded at auditok.signal.calculate_energy and on exact "
    "10^k / silence cases; monotonicity; selector errors; plus a passive monitor on every verdict taken inside split().",
    "Trusts: math.log10 accuracy (<1e-12) for the model. If the energy hook is bypassed by a refactoring, exact cases still decide >= vs >.",
    "runtime monitoring: reference model + hooked energy value + passive in-situ monitor", "DESIGN.md section 7 C07")
