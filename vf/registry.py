"""Per-property manifest texts (level claimed, trusted base, deciding technique)."""

R = {}


def reg(pid, text, note, technique, design_ref, category="exploration"):
    R[pid] = dict(category=category, text=text, note=note, technique=technique, design_ref=design_ref)


reg("C01",
    "Runtime monitor (INV/C01) over executions of the real StreamTokenizer: bounded-exhaustive small scope (all validity "
    "strings up to L x all accepted tuples with max_length<=4 incl. init-phase variants) plus recipes, structured random (max_length<=12), mid (13..256) and large (257..1000) "
    "long streams, across 9 frame types / validator kinds and 3 delivery modes. Index bookkeeping bugs live in small scopes, "
    "so an exhaustive core plus random depth is the right level; no claim beyond the executions observed.",
    "Trusts: CPython, the harness' instrumented DataSource, content-determined validators. Not covered: stateful validators, infinite streams.",
    "runtime monitoring: invariant oracle on recorded source reads and delivered tokens", "DESIGN.md section 7 C01")
reg("C02",
    "Runtime monitor (INV/C02) on token lengths/adjacency over the C01 workload, plus the constructor accept/reject decision "
    "checked exhaustively on a 623295-tuple integer grid against the statement's predicate.",
    "Trusts: 'a token of exactly max_length frames was cut' (holds for any tokenizer that cuts on reaching max_length). Grid bounded to [-2,6].",
    "runtime monitoring: invariant oracle on delivered tokens + exhaustive constructor grid", "DESIGN.md section 7 C02")
reg("C03",
    "Runtime monitor (INV/C03) on the validity of frames inside every delivered token, silence run carried across a cut, "
    "over the C01 workload with straddling-silence recipes in all four modes.",
    "Trusts: validity pattern == verdicts received (pure validators); continuation recognised from observable data.",
    "runtime monitoring: invariant oracle on token contents vs recorded verdicts", "DESIGN.md section 7 C03")
reg("C04",
    "Reference-model monitor: whole token list of the real tokenizer compared with a declarative 30-line segmentation model "
    "(SEG) on an exhaustive small scope (strings up to L x 120 tuples) plus recipes and random long streams. Strongest "
    "tokenizer check; a lost/shortened/invented/shifted token is reported with its mechanism.",
    "Trusts: SEG as the reading of the statement (selftest pins it on hand-computed cases). init_min<=1 only, as the property states.",
    "runtime monitoring: executable reference model vs observed output", "DESIGN.md section 7 C04")
reg("C05",
    "End-to-end reference-model monitor on split()/AudioRegion.split(): synthesized and random PCM over all widths, channel "
    "counts, selectors, modes, partial last windows and non-integral w*rate; every region's bytes, times, parameters and "
    "order are checked against the input and the region list against ENERGY->SEG."
    " The repository's own 579 tests run as one more workload with a passive monitor of this property's local clauses riding on every call they make.",
    "Trusts: ENERGY and SEG models; durations placed away from rounding boundaries (C06 covers those); 1e-6 dB guard band (C07 covers the boundary).",
    "runtime monitoring: reference model + byte-exact oracle on regions yielded by split()", "DESIGN.md section 7 C05")
reg("C06",
    "Runtime oracle on split()'s ValueError/accept decision over an exhaustive literal grid of decimal durations x windows x "
    "rates (incl. zero/negative/sub-sample), and on which isolated bursts are reported for accepted tuples (WIN exact-rational "
    "counts -> SEG), with model-free crisp sub-checks at exactly ceil(min_dur/w) and floor(max_dur/w).",
    "Trusts: WIN model (Fractions on the exact doubles, the statement's 1e-9 rule). The band between the code's 1e-10 epsilon and the statement's 1e-9 is never generated.",
    "runtime monitoring: exact-rational reference model vs observed accept/reject and reported bursts", "DESIGN.md section 7 C06")
reg("C07",
    "Runtime oracle on AudioEnergyValidator.is_valid over generated windows x thresholds x selectors, exact Fraction energy "
    "model; boundary decided against the implementation's own energy recorded at auditok.signal.calculate_energy and on exact "
    "10^k / silence cases; monotonicity; selector errors; plus a passive monitor on every verdict taken inside split().",
    "Trusts: math.log10 accuracy (<1e-12) for the model. If the energy hook is bypassed by a refactoring, exact cases still decide >= vs >.",
    "runtime monitoring: reference model + hooked energy value + passive in-situ monitor", "DESIGN.md section 7 C07")
reg("C08",
    "History monitor: an instrumented source timestamps (in reads, logical time) the instant each token reaches the consumer "
    "in generator and callback mode; latency bound, single end-of-stream request, mode agreement and prefix consistency over "
    "all cut points are checked on the C01 workload; split() laziness is observed on counting Buffer/Raw/Wave sources and a "
    "counting stdin.",
    "Trusts: logical time = source reads. List mode is only compared with the other modes.",
    "runtime monitoring: recorded delivery history vs latency/prefix oracle", "DESIGN.md section 7 C08")
reg("C10",
    "Reference-model monitor (FRAME) on the full read() sequence of real AudioReaders incl. reads past the end, over 9 source "
    "kinds, formats, block/hop/max_read on and off boundaries, with a bounded-exhaustive small scope on a bytes source."
    " The repository's own 579 tests run as one more workload with a passive monitor of this property's local clauses riding on every call they make.",
    "Trusts: FRAME model; block_size may be the exact or the IEEE floor; zero-sample hops not generated.",
    "runtime monitoring: reference model vs observed read() sequence", "DESIGN.md section 7 C10")
reg("C11",
    "History monitor with an executable sequential model (SRC cursor) over random and bounded-exhaustive operation histories, "
    "the same history run in lock-step on buffer, raw-file, wav-file and pipe-fed stdin sources."
    " The repository's own 579 tests run as one more workload with a passive monitor of this property's local clauses riding on every call they make.",
    "Trusts: SRC model; read(0) weak oracle; sub-sample instants resolve to either neighbour.",
    "runtime monitoring: operation histories checked against a sequential model", "DESIGN.md section 7 C11")
reg("C16",
    "Reference-model monitor: sample/seconds/millis slicing of real regions compared with Python list slicing of the sample "
    "list, bounded-exhaustive for small lengths and bounds, random beyond incl. huge magnitudes; TypeError cases."
    " The repository's own 579 tests run as one more workload with a passive monitor of this property's local clauses riding on every call they make.",
    "Trusts: a*rate evaluated in IEEE doubles; ties accept either neighbour.",
    "runtime monitoring: reference model (list slicing) vs observed slices", "DESIGN.md section 7 C16")
reg("C17",
    "Reference-model monitor on random operand trees of + sum * / join make_silence ==, byte-level expectations, operand "
    "snapshots before/after, error types for mismatched parameters, partial samples and assignment."
    " The repository's own 579 tests run as one more workload with a passive monitor of this property's local clauses riding on every call they make.",
    "Trusts: bytes-level model. Division of empty regions not generated.",
    "runtime monitoring: reference model (bytes algebra) vs observed results, operand snapshots", "DESIGN.md section 7 C17")
reg("C18",
    "Round-trip and half-trip monitor: auditok writes / stdlib reads, stdlib writes / auditok reads, eager and lazy, wav and "
    "raw, templates, exists_ok with an audit hook on open(), load(skip,max_read) vs slicing incl. empty results, numpy export "
    "vs struct decoding.",
    "Trusts: stdlib wave/open/struct. Compressed formats not covered (no pydub/ffmpeg).",
    "runtime monitoring: byte-exact oracle on files and loaded regions + sys.addaudithook", "DESIGN.md section 7 C18")
reg("C19",
    "History monitor on recorder histories read^k rewind read^j rewind ... with the FRAME recorder clause as oracle, over the "
    "C10 case space plus a bounded-exhaustive core (every k and j for small sources).",
    "Trusts: FRAME model. Zero-sample hops not generated.",
    "runtime monitoring: operation histories checked against a reference model", "DESIGN.md section 7 C19")
reg("C09",
    "Differential monitor: one decoded audio is split through 14 container kinds x 5 parameter spellings and max_read "
    "variants; every region list must equal the bytes/long-names reference, which is itself tied to the ENERGY->SEG model.",
    "Trusts: the reference path is checked against the model in the same run. AudioReader container only when its block equals the window. Microphone only through a stand-in pyaudio module.",
    "runtime monitoring: differential oracle across code paths + reference model", "DESIGN.md section 7 C09")
reg("C20",
    "History monitor: second use of one object compared with a fresh object's result; bounded-exhaustive over all ordered "
    "pairs of small streams x small tuples x 7 earlier-use modes, random longer pairs, repeated split() of region/bytes/"
    "rewound recorder, shuffled validator orders, buffer close/open.",
    "Trusts: a suspended generator of the earlier use is never resumed after the second use started.",
    "runtime monitoring: use-history differential oracle (reused vs fresh object)", "DESIGN.md section 7 C20")
reg("C12",
    "Schedule exploration with history checking (plus a systematic core: every schedule with <= k deviations from the default "
    "policy for tiny pipelines): the real worker threads run under a deterministic cooperative scheduler "
    "(own queue / event classes substituted for whatever names auditok.workers binds to queue.Queue, queue.SimpleQueue or "
    "threading.Event; scheduled Worker.start/join; queue-wait timeouts and pre-emptions are seeded decisions; pre-emption at "
    "statement starts of workers.py, at statement starts of every auditok module, or between bytecode instructions through "
    "sys.monitoring) plus a real-time stress mode; every "
    "observer's recorded message history is compared with split() and thread termination is decided in logical time "
    "(deadlock, only-timeouts, and no-progress verdicts); hostile variants: logger on, event-free streams, an observer killed "
    "mid-stream, a failing close(), blocking waits, tokenizer-first start order, bounded queues, overlapping readers.",
    "Trusts: queue.Queue's own internals (replaced), split() as the detection oracle (tied to the model by C05). Schedules are sampled, not exhausted.",
    "runtime monitoring: deterministic scheduler + offline history checker (exactly-once, order, termination)", "DESIGN.md sections 6, 7 C12")
reg("C13",
    "Same scheduler; the byte content and headers of the files written by StreamSaverWorker, AudioEventsJoinerWorker and "
    "RegionSaverWorker are compared with the blocks logged at the reader boundary and with the detections, across cache sizes, "
    "empty/event-free streams, silence durations, templates, short-read sources, overlapping readers, big-audio runs (0.2-1.5 MB "
    "through saver, joiner and region saver), stopped runs, writer-lagging schedules (a 10 400-block backlog), a systematic <=k-deviation core and a real-time stress mode with the real queue.",
    "Trusts: stdlib wave/open for reading back. Schedules are sampled.",
    "runtime monitoring: deterministic scheduler + conservation oracle (blocks in == blocks saved) on recorded histories", "DESIGN.md sections 6, 7 C13")
reg("C14",
    "Fault enumeration: the stop is injected at every read index of each stream (and several scheduler steps within it), "
    "schedules around it are explored by the seeded strategies; prefix-consistency and clean shutdown are checked on the "
    "recorded history and files (systematic core: every stop point x every schedule with <= k deviations for tiny pipelines; "
    "injected source faults before the stop; a starved saver at the stop); real command-line children receive SIGINT under back-pressure.",
    "Trusts: 'moment of the stop' = the first effect of stop_all() another thread could notice (a put, an event set, at the latest the join; on the pinned tree the enqueue of the stop marker); one read in flight allowed. Interleavings per stop point are sampled.",
    "runtime monitoring: stop-point enumeration under a deterministic scheduler + SIGINT on real child processes", "DESIGN.md sections 6, 7 C14", category="fault_enumeration")
reg("C15",
    "End-to-end differential monitor: cmdline.main(argv) in-process and real child processes vs split() called with kwargs "
    "rebuilt from argv with the documented defaults hard-coded; output parsed back through an independent formatter oracle; "
    "files checked byte-exactly; formatter checked on generated durations; stdin fed by a separate producer process through a real "
    "pipe; a tool that never exits is a verdict in logical time (iterations of its own wait loop), not a watchdog.",
    "Trusts: split() as detection oracle (C05). {timestamp} matched by shape only. Plotting, echo, microphone, compressed formats not covered.",
    "runtime monitoring: end-to-end differential oracle on stdout, exit status and files", "DESIGN.md section 7 C15")
