"""Shared pieces for the audio-level properties (C05, C06, C07, C09, C12-C15):
case generation for split(), the end-to-end model ENERGY -> SEG, and the
region-level oracle."""

from fractions import Fraction

from .gen import audio as A
from .gen import validity as G
from .models import win as W
from .models.seg import seg


def random_split_case(rng, max_windows=60, small_rate=True, allow_partial=True, safe_durations=True):
    """-> dict describing one split() case on synthesized audio."""
    rate, width, channels = A.random_format(rng, small=small_rate)
    block = rng.choice((1, 2, 3, 4, 5, 8))
    if rate >= 1000:
        block = rng.choice((8, 10, 16, 80))
    # requested analysis window: exactly block/rate, or slightly more (non-integral w*rate)
    if rng.random() < 0.7:
        w = block / rate
    else:
        w = (block + rng.choice((0.25, 0.5, 0.75))) / rate
    if int(w * rate) != block or W.block_size(w, rate) != block:
        w = (block + 0.5) / rate
    default_window = False
    if rate == 100 and rng.random() < 0.4:
        # the documented default analysis window (0.05 s): the argument is simply not given
        block, w, default_window = 5, 0.05, True
    max_len = rng.choice((1, 2, 3, 4, 5, 6, 8, 12))
    min_len = rng.randint(1, max_len)
    max_sil = rng.randint(0, max_len - 1)
    if rng.random() < 0.3:
        max_sil = min(max_sil, 1)
    drop = rng.random() < 0.5
    strict = rng.random() < 0.5
    params = (min_len, max_len, max_sil, 0, 0, (2 if strict else 0) | (4 if drop else 0))
    v = list(G.structured_random(rng, params, max_windows))
    if not v and rng.random() < 0.8:
        v = [1]
    partial = 0
    if allow_partial and v and block > 1 and rng.random() < 0.4:
        partial = rng.randint(1, block - 1)
    if channels > 1:
        uc = rng.choice((None, "any", "mix", "avg", "average", 0, channels - 1, -1, -channels))
    else:
        uc = rng.choice((None, None, 0, "mix"))
    lo, hi = A.THR_RANGE[width]
    thr = round(rng.uniform(lo, hi), rng.choice((0, 1, 3)))
    r_ = rng.random()
    if r_ < 0.03:
        thr = rng.choice((-250, -250.0, -1000))  # below the -200 dB floor of digital silence: every window is active
    elif r_ < 0.11:
        thr = rng.choice((0, 0.0))  # a falsy threshold is a perfectly good threshold (0 dB: any non-zero window is active)
    return dict(rate=rate, width=width, channels=channels, block=block, w=w, min_len=min_len, max_len=max_len,
                max_sil=max_sil, drop=drop, strict=strict, v=v, partial=partial, uc=uc, thr=thr,
                pcm_seed=rng.getrandbits(48), random_pcm=rng.random() < 0.15, default_window=default_window)


def build_audio(case):
    """-> (data bytes, model verdict list) or None when a window is too close to the threshold."""
    import random

    rng = random.Random(case["pcm_seed"])
    uc = case["uc"]
    if case.get("random_pcm"):
        n = len(case["v"]) * case["block"] - ((case["block"] - case["partial"]) if case["partial"] else 0)
        data = A.random_pcm(rng, max(n, 0), case["width"], case["channels"])
    else:
        # below the -200 dB floor nothing can be 'quiet': synthesize around an ordinary level, the model decides with the real threshold
        synth_thr = case["thr"] if case["thr"] > -190 else 20.0
        data, _ = A.synth(rng, case["v"], case["width"], case["channels"], case["block"], synth_thr, uc,
                          partial_last=case["partial"])
    verdicts = A.model_verdicts(data, case["width"], case["channels"], case["block"], case["thr"], uc)
    if verdicts is None:
        return None
    return data, verdicts


def durations(case):
    """Durations that mean exactly (min_len, max_len, max_sil) windows of the
    requested analysis window, away from every rounding boundary."""
    w = case["w"]
    return (case["min_len"] - 0.5) * w, (case["max_len"] + 0.5) * w, ((case["max_sil"] + 0.5) * w if case["max_sil"] else 0)


def flag(value, k):
    """a boolean option the way callers legally spell it: True/False, 1/0, numpy.True_/numpy.False_ (what `x > y` on arrays gives)"""
    import numpy as np

    return ((True, 1, np.True_, True) if value else (False, 0, np.False_, False))[k % 4]


def split_kwargs(case, long_names=True):
    min_dur, max_dur, max_silence = durations(case)
    kw = dict(min_dur=min_dur, max_dur=max_dur, max_silence=max_silence,
              drop_trailing_silence=flag(case["drop"], case.get("pcm_seed", 0) >> 20), strict_min_dur=flag(case["strict"], case.get("pcm_seed", 0) >> 22))
    if long_names:
        kw.update(analysis_window=case["w"], energy_threshold=case["thr"], use_channel=case["uc"])
    else:
        kw.update(aw=case["w"], eth=case["thr"], uc=case["uc"])
    if case.get("default_window") and case["w"] == 0.05 and int(0.05 * case["rate"]) == case["block"]:
        kw.pop("analysis_window", None)
        kw.pop("aw", None)
    return kw


def audio_kwargs(case, long_names=True):
    if long_names:
        return dict(sampling_rate=case["rate"], sample_width=case["width"], channels=case["channels"])
    return dict(sr=case["rate"], sw=case["width"], ch=case["channels"])


def expected_regions(case, data, verdicts):
    """-> list of (start_sample, nsamples) from the end-to-end model."""
    toks = seg(verdicts, case["min_len"], case["max_len"], case["max_sil"], case["strict"], case["drop"])
    bps = case["width"] * case["channels"]
    total = len(data) // bps
    out = []
    for s, e in toks:
        a = s * case["block"]
        b = min((e + 1) * case["block"], total)
        out.append((a, b - a))
    return out


def check_regions(regions, case, data, expected=None):
    """Region-level oracle of C05.  -> list of (mechanism key, detail)."""
    probs = []
    rate, width, channels, block = case["rate"], case["width"], case["channels"], case["block"]
    bps = width * channels
    got = []
    prev_end_sample = -1
    for k, r in enumerate(regions):
        if (r.sampling_rate, r.sample_width, r.channels) != (rate, width, channels):
            probs.append(("region-audio-parameters-changed", {"region": k, "got": [r.sampling_rate, r.sample_width, r.channels]}))
            continue
        if r.start is None or r.end is None:
            probs.append(("region-without-start-or-end", {"region": k}))
            continue
        x = r.start * rate
        s = round(x)
        if abs(x - s) >= 1e-6:
            probs.append(("region-start-not-on-a-sample", {"region": k, "start": r.start}))
            continue
        if s % block != 0:
            probs.append(("region-start-not-whole-windows", {"region": k, "start": r.start, "start_sample": s, "block": block}))
        rd = bytes(r)
        if len(rd) % bps:
            probs.append(("region-not-whole-samples", {"region": k, "nbytes": len(rd)}))
            continue
        ns = len(rd) // bps
        if rd != data[s * bps : s * bps + len(rd)] or s * bps + len(rd) > len(data):
            # shifted? find where these bytes really are
            at = data.find(rd) if rd else -1
            while at > 0 and at % bps:
                at = data.find(rd, at + 1)
            probs.append(("region-bytes-differ-from-input-at-reported-time",
                          {"region": k, "start_sample": s, "nsamples": ns, "bytes_found_at_sample": (at // bps if at >= 0 else None)}))
        if len(r) != ns:
            probs.append(("region-len-not-sample-count", {"region": k, "len": len(r), "nsamples": ns}))
        if r.duration != ns / rate:
            probs.append(("region-duration-not-samples-over-rate", {"region": k, "duration": r.duration, "expected": ns / rate}))
        if abs((r.end - r.start) - r.duration) > 1e-9 * max(1.0, abs(r.end)):
            probs.append(("region-end-minus-start-not-duration", {"region": k, "start": r.start, "end": r.end, "duration": r.duration}))
        if s <= prev_end_sample:
            probs.append(("regions-overlap-or-out-of-order", {"region": k, "start_sample": s, "prev_last_sample": prev_end_sample}))
        prev_end_sample = max(prev_end_sample, s + ns - 1)
        got.append((s, ns))
    if expected is not None and got != expected and not probs:
        probs.append((classify_regions(got, expected, case), {"observed": got[:20], "expected": expected[:20]}))
    return probs, got


def classify_regions(got, exp, case):
    gs, es = set(got), set(exp)
    extra, missing = sorted(gs - es), sorted(es - gs)
    if extra and not missing:
        return "regions-invented"
    if missing and not extra:
        return "regions-lost"
    (a, n), (b, m) = extra[0], missing[0]
    if a == b:
        return "region-shortened" if n < m else "region-lengthened"
    return "region-shifted"


def case_json(case):
    c = dict(case)
    c["v"] = "".join("A" if x else "a" for x in case["v"])
    return c


def case_from_json(c):
    c = dict(c)
    c["v"] = [1 if ch == "A" else 0 for ch in c["v"]]
    return c


def path_through_symlink(tmp, name):
    """-> (path, decoy): `path` = <tmp>/lnk/../<name> where lnk is a symbolic link to <tmp>/deep/a, i.e. the file <tmp>/deep/<name>
    as the operating system resolves it; `decoy` = <tmp>/<name>, the file a LEXICAL normalisation of the path would open.
    The caller writes the real audio to `path` and something else to `decoy`."""
    import os

    os.makedirs(os.path.join(tmp, "deep", "a"), exist_ok=True)
    lnk = os.path.join(tmp, "lnk")
    if not os.path.islink(lnk):
        os.symlink(os.path.join("deep", "a"), lnk)
    return os.path.join(tmp, "lnk", "..", name), os.path.join(tmp, name)


def write_wav(path, data, rate, width, channels, trailing_chunk=False):
    """a PCM wav file written with the stdlib; with trailing_chunk=True a LIST/INFO chunk (as recorders and editors add) follows
    the data chunk - it is not audio"""
    import struct
    import wave

    with wave.open(path, "wb") as fp:
        fp.setframerate(rate)
        fp.setsampwidth(width)
        fp.setnchannels(channels)
        fp.writeframes(data)
    if trailing_chunk:
        info = b"INFOISFT" + struct.pack("<I", 14) + b"vf test suite\0" + b"ICMT" + struct.pack("<I", 26) + b"<xml>not audio at all</xml"
        chunk = b"LIST" + struct.pack("<I", len(info)) + info
        with open(path, "r+b") as fp:
            fp.seek(0, 2)
            if fp.tell() % 2:
                fp.write(b"\0")
            fp.write(chunk)
            size = fp.tell() - 8
            fp.seek(4)
            fp.write(struct.pack("<I", size))
