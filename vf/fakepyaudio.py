"""A stand-in for the `pyaudio` module (PyAudio itself is not installed): a
'microphone' that delivers prepared PCM and counts what was pulled from it.
Installed as sys.modules['pyaudio'] for the duration of one case, so that the
library's real PyAudioSource code path (input=None) can be driven."""

import sys

DEVICE = {"data": b"", "pulled_samples": 0, "opened": 0, "frames_per_buffer": None}


class _Stream:
    def __init__(self, channels, width, frames_per_buffer):
        self._bps = channels * width
        self._pos = 0
        self._stopped = False
        DEVICE["frames_per_buffer"] = frames_per_buffer

    def is_active(self):
        return not self._stopped and self._pos < len(DEVICE["data"])

    def is_stopped(self):
        return self._stopped

    def start_stream(self):
        self._stopped = False

    def stop_stream(self):
        self._stopped = True

    def close(self):
        self._stopped = True

    def read(self, num_frames, exception_on_overflow=True):
        d = DEVICE["data"][self._pos : self._pos + num_frames * self._bps]
        self._pos += len(d)
        DEVICE["pulled_samples"] += len(d) // self._bps
        return d


class PyAudio:
    def get_format_from_width(self, width, unsigned=True):
        return width

    def open(self, format=None, channels=1, rate=16000, input=False, output=False, input_device_index=None, frames_per_buffer=1024, **kw):
        DEVICE["opened"] += 1
        return _Stream(channels, format, frames_per_buffer)

    def terminate(self):
        pass


class installed:
    """context manager: `import pyaudio` inside the library resolves to this module."""

    def __init__(self, data):
        self.data = data

    def __enter__(self):
        self.prev = sys.modules.get("pyaudio")
        DEVICE.update(data=self.data, pulled_samples=0, opened=0)
        sys.modules["pyaudio"] = sys.modules[__name__]
        return DEVICE

    def __exit__(self, *a):
        if self.prev is None:
            sys.modules.pop("pyaudio", None)
        else:
            sys.modules["pyaudio"] = self.prev
