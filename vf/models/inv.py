"""INV: token invariants C01-C03 over observable data only.

Every function returns a list of (mechanism_key, detail) problems; empty
means the invariant held for this run."""


def same_frame(a, b):
    if a is b:
        return True
    if type(a) is not type(b):
        return False
    try:
        import numpy as np

        if isinstance(a, np.ndarray):
            return a.shape == b.shape and bool((a == b).all())
    except Exception:
        pass
    try:
        return bool(a == b)
    except Exception:
        return False


def c01(frames, tokens):
    """tokens are exact, ordered, non-overlapping slices of the stream."""
    n = len(frames)
    probs = []
    prev_end = -1
    for k, tok in enumerate(tokens):
        if not (isinstance(tok, tuple) and len(tok) == 3):
            probs.append(("token-shape", {"token_index": k, "token": repr(tok)[:200]}))
            continue
        data, start, end = tok
        try:
            # any integer type is a position (a tokenizer fed numpy parameters may well answer in numpy integers); what the
            # statement fixes is the VALUE.  Floats, even integral ones, are not positions.
            import operator

            if isinstance(start, bool) or isinstance(end, bool):
                raise TypeError
            start, end = operator.index(start), operator.index(end)
        except TypeError:
            probs.append(("index-not-int", {"token_index": k, "start": repr(start), "end": repr(end)}))
            continue
        if not (0 <= start <= end < n):
            probs.append(("index-out-of-range", {"token_index": k, "start": start, "end": end, "stream_len": n}))
            continue
        if end - start + 1 != len(data):
            probs.append(("length-mismatch", {"token_index": k, "start": start, "end": end, "nframes": len(data)}))
            continue
        if start <= prev_end:
            probs.append(("overlap-or-disorder", {"token_index": k, "start": start, "prev_end": prev_end}))
        for off, f in enumerate(data):
            if not same_frame(f, frames[start + off]):
                # classify: is the content a shifted slice?
                shift = None
                for d in (-2, -1, 1, 2):
                    lo = start + d
                    if 0 <= lo and lo + len(data) <= n and all(
                        same_frame(x, frames[lo + o]) for o, x in enumerate(data)
                    ):
                        shift = d
                        break
                probs.append((
                    "frames-not-stream-slice" if shift is None else "frames-shifted-vs-indices",
                    {"token_index": k, "start": start, "end": end, "offset": off, "shift": shift},
                ))
                break
        prev_end = max(prev_end, end)
    return probs


def _continuations(tokens, max_len):
    """cont[k] is True iff token k is the immediate continuation of a token cut
    at max_len: previous token has exactly max_len frames and is adjacent.
    (A naturally ended token has < max_len frames and is followed by an
    invalid frame that is in no token, so full length + adjacency identifies
    'continuation' from observable data alone.)"""
    cont = []
    for k, (data, s, e) in enumerate(tokens):
        if k == 0:
            cont.append(False)
            continue
        pd, ps, pe = tokens[k - 1]
        cont.append((pe - ps + 1) == max_len and s == pe + 1)
    return cont


def c02(tokens, min_len, max_len, strict):
    probs = []
    cont = _continuations(tokens, max_len)
    for k, (data, s, e) in enumerate(tokens):
        ln = e - s + 1
        if ln > max_len or len(data) > max_len:
            probs.append(("token-longer-than-max_length", {"token_index": k, "start": s, "end": e, "len": max(ln, len(data)), "max_length": max_len}))
        if ln < min_len:
            if strict:
                probs.append(("short-token-in-strict-mode", {"token_index": k, "start": s, "end": e, "min_length": min_len}))
            elif not cont[k]:
                prev = tokens[k - 1][1:] if k else None
                probs.append(("short-token-not-adjacent-to-cut", {"token_index": k, "start": s, "end": e, "min_length": min_len, "prev": prev}))
    return probs


def c03(v, tokens, max_len, max_sil, drop, init_min=0, init_max_silence=0, validity_of=None):
    """validity_of(token) -> list of verdicts for the frames INSIDE the token (the validator re-applied by the
    observer, as the property states); default: the stream's validity pattern at the token's indices."""
    probs = []
    bound = max(max_sil, 0)
    if init_min > 1:
        bound = max(bound, init_max_silence)
    cont = _continuations(tokens, max_len)
    carried = 0  # invalid run at the end of the previous token (if it was cut and this one continues it)
    for k, (data, s, e) in enumerate(tokens):
        vv = v[s : e + 1] if validity_of is None else validity_of((data, s, e))
        if not any(vv):
            probs.append(("token-without-valid-frame", {"token_index": k, "start": s, "end": e}))
        if not cont[k] and vv and not vv[0]:
            probs.append(("token-starts-with-invalid-frame", {"token_index": k, "start": s, "end": e}))
        run = carried if cont[k] else 0
        worst = 0
        for x in vv:
            if x:
                run = 0
            else:
                run += 1
                worst = max(worst, run)
        if worst > bound:
            probs.append(("silence-run-exceeds-bound", {"token_index": k, "start": s, "end": e, "run": worst, "bound": bound, "continuation": cont[k]}))
        if drop and (e - s + 1) != max_len and vv and not vv[-1]:
            probs.append(("trailing-silence-not-dropped", {"token_index": k, "start": s, "end": e}))
        carried = run  # trailing run of this token, carried only if the next token continues it
    return probs
