"""WIN: duration -> window-count arithmetic and accept/reject of split()
(property C06), in exact rationals on the exact values of the doubles."""

import math
from fractions import Fraction

EPS = Fraction(1, 10 ** 9)


def quotient(dur, w):
    q = Fraction(dur) / Fraction(w)
    r = round(q)
    if abs(q - r) <= EPS:
        return Fraction(r)
    return q


def ambiguity(dur, w):
    """distance of dur/w to the nearest integer (exact)."""
    if dur == 0:
        return Fraction(0)
    q = Fraction(dur) / Fraction(w)
    return abs(q - round(q))


def in_ambiguous_band(dur, w):
    """between the implementation's epsilon (1e-10) and the statement's (1e-9), with a 10-20 % guard on either side:
    never generated (the two resolve such a quotient differently).  Below it both snap to the integer, above it neither does."""
    a = ambiguity(dur, w)
    return Fraction(9, 10 ** 11) < a < Fraction(12, 10 ** 10)


def counts(min_dur, max_dur, max_silence, w):
    min_len = math.ceil(quotient(min_dur, w))
    max_len = math.floor(quotient(max_dur, w))
    max_sil = math.floor(quotient(max_silence, w)) if max_silence > 0 else 0
    return min_len, max_len, max_sil


def reject_reason(min_dur, max_dur, max_silence, w, rate):
    """None when split() must accept, else the clause of the statement that rejects."""
    if min_dur <= 0:
        return "min_dur<=0"
    if max_dur <= 0:
        return "max_dur<=0"
    if max_silence < 0:
        return "max_silence<0"
    if w <= 0:
        return "analysis_window<=0"
    if block_size(w, rate) == 0:
        return "window shorter than one sample"
    min_len, max_len, max_sil = counts(min_dur, max_dur, max_silence, w)
    if min_len > max_len:
        return "min_dur needs more windows than max_dur allows"
    if max_sil >= max_len:
        return "max_silence not below max_dur in windows"
    return None


def block_size(w, rate):
    """floor(w*rate) with the statement's own rule that a quotient within 1e-9
    of an integer counts as that integer (0.3 s at 10 Hz is 3 samples although
    the double 0.3 is slightly below 3/10)."""
    q = Fraction(w) * rate
    r = round(q)
    if abs(q - r) <= EPS:
        return int(r)
    return math.floor(q)


def block_size_ieee(w, rate):
    """the same product evaluated in IEEE doubles (the API's own number type)."""
    return int(w * rate)


def block_unambiguous(w, rate):
    """True when both admissible evaluations agree (they differ only when the
    double product rounds across an integer, e.g. 0.29*100)."""
    return block_size(w, rate) == block_size_ieee(w, rate)


def selftest():
    assert counts(0.07, 0.3, 0.0, 0.01) == (7, 30, 0)
    assert counts(0.2, 5, 0.3, 0.05) == (4, 100, 6)
    assert counts(0.15, 0.3, 0.1, 0.05) == (3, 6, 2)
    assert counts(0.011, 0.029, 0.0, 0.01) == (2, 2, 0)
    assert reject_reason(0.3, 0.2, 0, 0.1, 10) is not None
    assert reject_reason(0.1, 0.2, 0.2, 0.1, 10) is not None
    assert reject_reason(0.1, 0.2, 0.1, 0.1, 10) is None
    assert reject_reason(0.1, 0.2, 0.1, 0.01, 10) == "window shorter than one sample"
    assert block_size(0.3, 10) == 3 and block_size(0.03, 1000) == 30 and block_size(0.29, 100) == 29
    assert not block_unambiguous(0.29, 100)
    return 8
