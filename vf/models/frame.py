"""FRAME: AudioReader framing model (C10) and the recorder clause (C19).
Positions are in samples; a block is a (start, end) half-open sample range."""

import math
from fractions import Fraction

from . import win as W


def size_candidates(dur, rate):
    """floor(dur*rate) as Python evaluates it: int() of the double product.  (The near-integer reading used for window
    COUNTS in C06 is deliberately not admitted here: 0.29 s at 100 Hz is 28 samples, as int(0.29*100) says.)"""
    return {W.block_size_ieee(dur, rate)}


def visible_candidates(total, rate, max_read):
    """number of visible samples: min(total, round(max_read*rate)) - `round` as the
    statement spells it for this Python library: the built-in round() of the
    product (ties to even, e.g. 62.5 -> 62)."""
    if max_read is None:
        return {total}
    return {max(0, min(total, round(max_read * rate)))}


def blocks(vis, block, hop):
    """block k = [k*hop, k*hop+block) clipped to vis, emitted while it holds at
    least one sample not in block k-1 (k=0: while vis is non-empty)."""
    out = []
    if vis <= 0:
        return out
    out.append((0, min(block, vis)))
    k = 1
    while (k - 1) * hop + block < vis:
        out.append((k * hop, min(k * hop + block, vis)))
        k += 1
    return out


def selftest():
    assert blocks(0, 4, 2) == []
    assert blocks(3, 4, 2) == [(0, 3)]
    assert blocks(4, 4, 2) == [(0, 4)]
    assert blocks(5, 4, 2) == [(0, 4), (2, 5)]
    assert blocks(8, 4, 2) == [(0, 4), (2, 6), (4, 8)]
    assert blocks(9, 4, 4) == [(0, 4), (4, 8), (8, 9)]
    assert blocks(7, 3, 1) == [(0, 3), (1, 4), (2, 5), (3, 6), (4, 7)]
    assert visible_candidates(10, 10, 0.55) == {6} and visible_candidates(100, 1000, 0.0625) == {62}
    assert visible_candidates(10, 10, 0.3) == {3}
    assert visible_candidates(10, 10, 5) == {10}
    return 10
