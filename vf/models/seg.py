"""SEG: declarative greedy segmentation (property C04), written from the
statement, not from the implementation: no state machine, no flags.

Input : validity sequence v[0..n), (min_len, max_len, max_sil, strict, drop)
Output: list of (start, end) inclusive frame indices."""


def seg(v, min_len, max_len, max_sil, strict=False, drop=False):
    n = len(v)
    out = []
    pos = 0
    max_sil = max(max_sil, 0)  # "no run of more than max_sil invalid frames" with max_sil < 0 tolerates none, like 0
    while pos < n:
        # next valid frame outside the previous extended stretch
        i = pos
        while i < n and not v[i]:
            i += 1
        if i >= n:
            break
        # last valid frame reachable from i through gaps <= max_sil
        j = i
        k = i + 1
        while k < n and k - j - 1 <= max_sil:
            if v[k]:
                j = k
            k += 1
        ext_end = min(j + max(max_sil, 0), n - 1)
        # cut [i, ext_end] into consecutive pieces of max_len frames
        s = i
        first = True
        while s <= ext_end:
            e = s + max_len - 1
            if e <= ext_end:
                out.append((s, e))  # full piece: always delivered, as is
                s = e + 1
                first = False
                continue
            # final partial piece [s, ext_end]
            if any(v[s : ext_end + 1]):
                e2 = ext_end
                if drop:
                    while not v[e2]:
                        e2 -= 1
                length = e2 - s + 1
                if length >= min_len or (not strict and not first):
                    out.append((s, e2))
            break
        pos = ext_end + 1
    return out
