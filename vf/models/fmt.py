"""FMT: oracle for the duration formatter (C15)."""

import re
from fractions import Fraction

RE_S = re.compile(r"^\d+\.\d{3}$")
RE_I = re.compile(r"^\d+$")
RE_HMSI = re.compile(r"^(\d{2,})\|(\d{2})\|(\d{2})\|(\d{3})$")
HMSI_FMT = "%h|%m|%s|%i"


def check_S(text, x):
    """%S: a decimal string with exactly three decimals within 0.0005 of the value."""
    if not RE_S.match(text):
        return "S-not-three-decimals"
    if abs(Fraction(text) - Fraction(x)) > Fraction(5, 10000) + Fraction(1, 10 ** 12):
        return "S-value-off"
    return None


def check_I(text, x):
    """%I: an integer k with |k - 1000x| < 1."""
    if not RE_I.match(text):
        return "I-not-an-integer"
    if abs(int(text) - 1000 * Fraction(x)) >= 1:
        return "I-value-off"
    return None


def check_hmsi(text, x, I_text=None):
    """%h %m %s %i rendered with HMSI_FMT: zero-padded 2/2/2/3, m,s<60, i<1000, recomposes to a whole-ms value."""
    mo = RE_HMSI.match(text)
    if not mo:
        return "hmsi-field-widths"
    h, m, s, i = (int(g) for g in mo.groups())
    if m >= 60 or s >= 60 or i >= 1000:
        return "hmsi-field-out-of-range"
    k = ((h * 60 + m) * 60 + s) * 1000 + i
    if abs(k - 1000 * Fraction(x)) >= 1:
        return "hmsi-does-not-recompose"
    if I_text is not None and RE_I.match(I_text) and int(I_text) != k:
        return "hmsi-differs-from-I"
    return None


def selftest():
    assert check_S("123.589", 123.589) is None and check_S("123.59", 123.59) is not None and check_S("60.000", 59.9996) is None
    assert check_I("8029", 8.03) is None and check_I("8030", 8.03) is None and check_I("8031", 8.03) is not None
    assert check_hmsi("01|02|03|250", 3723.25) is None
    assert check_hmsi("00|00|59|1000", 59.9996) is not None
    assert check_hmsi("00|01|00|000", 59.9996) is None  # carried
    assert check_hmsi("00|00|59|999", 59.9996) is None  # truncated
    return 8
