"""ENERGY: exact log-energy of a PCM window (property C07), independent of
numpy: struct decoding, slicing de-interleave, Fraction mean square."""

import math
import struct
from fractions import Fraction

FMT = {1: "b", 2: "h", 4: "i"}
FLOOR_DB = -200.0


def decode(data, width, channels):
    """-> list of channels, each a list of ints (signed little-endian)."""
    n = len(data) // width
    vals = struct.unpack("<%d%s" % (n, FMT[width]), data)
    return [list(vals[c::channels]) for c in range(channels)]


def db_of_mean_square(ms):
    """10*log10(ms) with the -200 dB floor for digital silence (ms < 1e-20)."""
    if ms < Fraction(1, 10 ** 20):
        return FLOOR_DB
    ms = Fraction(ms)
    return 10.0 * (math.log10(ms.numerator) - math.log10(ms.denominator))


def channel_db(samples):
    n = len(samples)
    return db_of_mean_square(Fraction(sum(x * x for x in samples), n))


def norm_selector(use_channel, channels):
    """-> ('any',) | ('mix',) | ('idx', i).  ValueError when the statement says so."""
    if channels == 1:
        return ("any",)
    if use_channel is None or use_channel == "any":
        return ("any",)
    if isinstance(use_channel, int) and not isinstance(use_channel, bool):
        i = use_channel + channels if use_channel < 0 else use_channel
        if i < 0 or i >= channels:
            raise ValueError("channel index out of range")
        return ("idx", i)
    if use_channel in ("mix", "avg", "average"):
        return ("mix",)
    raise ValueError("unknown channel selector")


def window_db(data, width, channels, use_channel=None):
    chans = decode(data, width, channels)
    sel = norm_selector(use_channel, channels)
    if sel[0] == "any":
        return max(channel_db(c) for c in chans)
    if sel[0] == "idx":
        return channel_db(chans[sel[1]])
    n = len(chans[0])
    tot = sum(sum(ch[i] for ch in chans) ** 2 for i in range(n))
    return db_of_mean_square(Fraction(tot, channels * channels * n))


def selftest():
    import struct as st

    d = st.pack("<4h", 100, -100, 100, -100)
    assert abs(window_db(d, 2, 1) - 40.0) < 1e-12
    assert window_db(b"\0\0\0\0", 2, 1) == -200.0
    # stereo: ch0 = 1000, ch1 = -1000 -> any = 60 dB, mix = silence
    d = st.pack("<4h", 1000, -1000, 1000, -1000)
    assert abs(window_db(d, 2, 2, None) - 60.0) < 1e-12
    assert window_db(d, 2, 2, "mix") == -200.0
    assert abs(window_db(d, 2, 2, -1) - 60.0) < 1e-12
    assert abs(window_db(bytes([0x80]), 1, 1) - 20 * math.log10(128)) < 1e-12  # signed 8-bit extreme
    return 6
