"""One worker pipeline run under the deterministic scheduler (C12, C13, C14):
case generation, pipeline construction as the CLI does it, history collection."""

import contextlib
import io
import os
import random
import sys
import threading
import wave

import auditok
import auditok.workers as W

from . import audiocommon as AC
from .sched import harness as H
from .sched import strategies as S
from .sched.core import DONE

STOP = "STOP_PROCESSING"
TEMPLATES = ("det_{id}.wav", "ev_{id}_{start:.3f}_{end:.3f}.wav", "d{id:03d}-{duration:.2f}.raw", "x_{start}_{end}_{id}.wav",
             "r_{id}_{duration}.wav", "{duration}_{id}.raw")


def random_pipeline_case(rng, max_windows=40, want_saver=None, want_stop=False, line_mode=False, many_detections=False, allow_hop=False):
    case = AC.random_split_case(rng, max_windows=max_windows, small_rate=True, allow_partial=True)
    # the tokenizer worker splits an AudioReader: durations are counted in the reader's block duration
    case["w"] = case["block"] / case["rate"]
    if many_detections:
        # a long burst of detections (one per window or two): inboxes fill up when an observer is starved
        case["max_len"] = rng.choice((1, 1, 2))
        case["min_len"] = 1
        case["max_sil"] = 0
        n = rng.randint(25, 70)
        case["v"] = [1 if rng.random() < 0.9 else 0 for _ in range(n)]
        case["partial"] = 0
        case["random_pcm"] = False
    kinds = []
    for _ in range(rng.choice((0, 1, 1, 2, 3, 4))):
        kinds.append(rng.choice(("rec", "rec", "rec", "print", "regionsaver", "joiner")))
    if kinds.count("print") > 1:
        kinds = [k if k != "print" else "rec" for k in kinds[:-1]] + ["print"]
    case["observers"] = kinds
    case["observer_timeouts"] = [rng.choice((0.0005, 0.005, 0.2)) for _ in kinds]
    if want_saver is None:
        want_saver = rng.random() < 0.4
    bps = case["width"] * case["channels"]
    if want_saver:
        blk = case["block"] / case["rate"]
        case["saver"] = {"cache_size_sec": rng.choice((1 / (case["rate"] * bps), blk / 2, blk, 3 * blk, 1000 * blk, 0.5, 0))}
    else:
        case["saver"] = None
    case["silence"] = rng.choice((0, 0.5 / case["rate"], 1 / case["rate"], 3 * case["block"] / case["rate"], 0.1))
    case["template"] = rng.choice(TEMPLATES)
    case["strategy"] = rng.choice(S.NAMES) if not many_detections else rng.choice(("starve", "starve", "pct", "sticky"))
    case["sched_seed"] = rng.getrandbits(32)
    case["timeout_budget"] = rng.choice((0, 0, 3, 10, 50))
    case["line_p"] = rng.choice((0.02, 0.1, 0.3)) if line_mode else 0.0
    if line_mode == "instr":
        # pre-emption between bytecode instructions (a read-modify-write inside ONE statement can be split), and in
        # every auditok module the threads execute, not only workers.py
        case["line_gran"] = "instr"
        case["line_scope"] = rng.choice(("workers", "workers", "all"))
        case["line_p"] = rng.choice((0.02, 0.08, 0.2)) if case["line_scope"] == "workers" else rng.choice((0.0005, 0.002))
    elif line_mode == "all":
        case["line_scope"] = "all"
        case["line_p"] = rng.choice((0.002, 0.01, 0.03))
    if allow_hop and rng.random() < 0.12 and case["block"] > 1 and not case["partial"] and not many_detections:
        case["hop"] = rng.randint(1, case["block"] - 1)  # overlapping analysis windows
    case["stop"] = None
    if want_stop:
        nblocks = len(case["v"])
        case["stop"] = {"after_reads": rng.randint(0, nblocks + 2), "extra_steps": rng.choice((0, 0, 1, 2, 3, 5, 8, 13))}
    return case


class ShortReadSource(auditok.io.BufferAudioSource):
    """A source that, like a pipe or a driver, may return fewer samples than asked for before the end of the stream."""

    def vf_init(self, seed):
        self.vf_rng = random.Random(seed)
        return self

    def read(self, size):
        if size is not None and size > 1 and self.vf_rng.random() < 0.35:
            size = self.vf_rng.randint(1, size - 1)
        return super().read(size)


class Result:
    pass


def split_reference(data, case):
    if case.get("short_reads"):
        # the blocks are whatever the source hands out: the reference is split() over an identical source
        src = ShortReadSource(data, case["rate"], case["width"], case["channels"]).vf_init(case["short_reads"])
        rd = auditok.AudioReader(src, block_dur=case["w"])
        kw = {k: v for k, v in AC.split_kwargs(case).items() if k != "analysis_window"}
        return [(i + 1, r.start, r.end, bytes(r)) for i, r in enumerate(auditok.split(rd, **kw))]
    if case.get("hop"):
        # an overlapping reader: the reference is split() over an identical reader
        rd = auditok.AudioReader(data, block_dur=case["w"], hop_dur=case["hop"] / case["rate"], **AC.audio_kwargs(case))
        kw = {k: v for k, v in AC.split_kwargs(case).items() if k != "analysis_window"}
        return [(i + 1, r.start, r.end, bytes(r)) for i, r in enumerate(auditok.split(rd, **kw))]
    kw = AC.split_kwargs(case)
    return [(i + 1, r.start, r.end, bytes(r)) for i, r in enumerate(auditok.split(data, **kw, **AC.audio_kwargs(case)))]


def consumed_audio(case, blocks):
    """The part of the source audio that the blocks read so far cover (with an overlapping reader consecutive blocks
    share block-hop samples)."""
    blocks = [b for b in blocks if b is not None]
    if not case.get("hop") or not blocks:
        return b"".join(blocks)
    keep = (case["block"] - case["hop"]) * case["width"] * case["channels"]
    return blocks[0] + b"".join(b[keep:] for b in blocks[1:])


def run_pipeline(case, data, tmpdir, script_override=None, decisions=None, strategy=None):
    """-> Result with everything the oracles need."""
    res = Result()
    res.case = case
    res.files = {}
    if strategy is None:
        strategy = S.Scripted(decisions) if decisions is not None else S.make(case["strategy"], case["sched_seed"], case["timeout_budget"])
    kw = {k: v for k, v in AC.split_kwargs(case, long_names=not (case.get("sched_seed", 0) & 4)).items() if k not in ("analysis_window", "aw")}
    stdout = io.StringIO()
    holder = {}

    def script(sched):
        rkw = {"block_dur": case["w"]}
        if case.get("hop"):
            rkw["hop_dur"] = case["hop"] / case["rate"]
        if case.get("short_reads"):
            src0 = ShortReadSource(data, case["rate"], case["width"], case["channels"]).vf_init(case["short_reads"])
            reader = H.SchedReader(src0, **rkw).vf_init(sched)
        elif case.get("close_fault"):
            src0 = H.FaultyCloseSource(data, case["rate"], case["width"], case["channels"])
            reader = H.SchedReader(src0, **rkw).vf_init(sched)
            src0.vf_reader = reader
        elif case.get("buffer_type"):
            # the source's buffer is a bytearray / memoryview (a ring buffer, readinto()): its blocks are not `bytes` objects
            buf = bytearray(data) if case["buffer_type"] == "bytearray" else memoryview(bytes(data))
            src0 = auditok.io.BufferAudioSource(buf, case["rate"], case["width"], case["channels"])
            reader = H.SchedReader(src0, **rkw).vf_init(sched)
        else:
            reader = H.SchedReader(data, **rkw, **AC.audio_kwargs(case)).vf_init(sched)
        holder["reader"] = reader
        src = reader
        saver = None
        if case["saver"] is not None:
            path = os.path.join(tmpdir, "stream.wav")
            if case.get("stale_files"):
                # a recording of an earlier session sits at the output path: this session's file replaces it, whatever happens
                with wave.open(path, "wb") as fp_:
                    fp_.setframerate(case["rate"]), fp_.setsampwidth(case["width"]), fp_.setnchannels(case["channels"])
                    fp_.writeframes(bytes([7]) * (case["width"] * case["channels"] * 37))
            saver = W.StreamSaverWorker(reader, filename=path, cache_size_sec=case["saver"]["cache_size_sec"],
                                        timeout=0.2)
            saver.vf_name = "saver"
            holder["saver"] = saver
            reader.vf_victim = lambda: saver.__dict__.get("_vf_state")
            holder["saver_path"] = path
            if "saver-last" not in (case.get("start_order") or ""):
                saver.start()
            else:
                # (the source delivers a few blocks and then pauses until the writer thread exists: a tokenizer that reached
                #  the end of the stream before that would join a thread that was never started - the caller's mistake)
                #  (a stop requested by an observer ends the tokenizer just the same: then nothing is delivered before the writer exists)
                gate_at = 0 if (case.get("stop") or {}).get("by") == "observer" else min(case.get("sched_seed", 0) % 4, max(0, len(case["v"]) - 1))
                reader.vf_gate = (gate_at, lambda: holder.get("saver_started", False))
            src = H.OuterProxy(saver)
            holder["proxy"] = src
        observers = []
        holder["observers"] = observers
        logger = None
        if case.get("logger"):
            import logging

            logger = logging.getLogger("vf-pipeline")
            logger.handlers[:] = [logging.NullHandler()]
            logger.propagate = False
            logger.setLevel(logging.INFO)
        for i, (kind, to) in enumerate(zip(case["observers"], case["observer_timeouts"])):
            if kind == "rec" and case.get("stop") and case["stop"].get("by") == "observer" and "stopper" not in holder:
                o = H.StopperObserver(sched, f"obs{i}", timeout=to).vf_arm(holder, case["stop"]["after_detections"])
                o.vf_name = f"obs{i}:rec"
                holder["stopper"] = o
            elif kind == "rec":
                o = H.RecObserver(sched, f"obs{i}", timeout=to)
            elif kind == "faulty":
                o = H.FaultyObserver(sched, f"obs{i}", case.get("observer_dies_at", 1), timeout=to)
            elif kind == "command":
                # CommandLineWorker: the command moves the temporary wav it is given into a directory of ours
                d = os.path.join(tmpdir, f"cmd{i}")
                os.makedirs(d, exist_ok=True)
                o = W.CommandLineWorker("mv {file} " + d + "/", timeout=to, **({"logger": logger} if logger is not None else {}))
                o.vf_dir = d
            elif kind == "print":
                o = W.PrintWorker("{id} {start} {end} {duration}", "%S", timeout=to)
            elif kind == "regionsaver":
                d = os.path.join(tmpdir, f"regions{i}")
                os.makedirs(d, exist_ok=True)
                for name_ in case.get("stale_region_files", ()):
                    with open(os.path.join(d, name_), "wb") as fp_:
                        fp_.write(b"left over from an earlier run")
                o = W.RegionSaverWorker(os.path.join(d, case["template"]), timeout=to, **({"logger": logger} if logger is not None else {}))
                o.vf_dir = d
            else:
                p = os.path.join(tmpdir, f"joined{i}.wav")
                if case.get("stale_files"):
                    with open(p, "wb") as fp_:
                        fp_.write(b"RIFF left over from an earlier run")
                o = W.AudioEventsJoinerWorker(case["silence"], p, None, case["rate"], case["width"], case["channels"], timeout=to)
                o.vf_path = p
            o.vf_name = f"obs{i}:{kind}"
            o.vf_kind = kind
            observers.append(o)
        if case.get("fault_at_read") is not None:
            reader.vf_fault_at = case["fault_at_read"]
        tw = W.TokenizerWorker(src, observers, logger=logger, **kw)
        tw.vf_name = "tokenizer"
        holder["tw"] = tw

        def stop_takes_effect(*_):
            # "The moment of the stop" = the first thing the main thread does to the workers after stop_all() was entered
            # that another thread could notice: a message put into an inbox, an event set, or - at the latest - the join
            # it blocks in.  On the pinned tree this is the enqueue of the stop message into the tokenizer's inbox; the rule
            # does not depend on HOW the implementation tells its threads to stop (message, flag, sentinel object).
            if holder.get("stop_called") and "reads_started_at_stop" not in holder and sched.me().name in ("main", holder.get("stopper_name")):
                holder["reads_started_at_stop"] = reader.vf_reads_started
                holder["step_at_stop"] = sched.steps

        sched.on_put = stop_takes_effect
        sched.on_signal = stop_takes_effect
        sched.on_join = stop_takes_effect
        holder["stop_takes_effect"] = stop_takes_effect
        order = case.get("start_order") or ""
        if "tokenizer-first" in order:
            # started by hand, tokenizer before its observers (start_all() does it the other way round)
            tw.start()
            for o in observers:
                o.start()
        else:
            tw.start_all()
        if "saver-last" in order and saver is not None:
            # the writer thread of the stream saver is started after the tokenizer already reads through it: what was read in
            # the meantime waits in its inbox
            for _ in range(case.get("sched_seed", 0) % 7):
                sched.yield_point("main-delay")
            saver.start()
            holder["saver_started"] = True
        if script_override is not None:
            script_override(sched, holder)
        elif case["stop"] is not None and case["stop"].get("by") == "observer":
            # the stop comes from an observer thread; the main thread calls stop_all() once the tokenizer has ended
            sched.wait_until(lambda: tw._vf_state.status == DONE)
            holder["stop_called"] = True
            tw.stop_all()
            stop_takes_effect()
            if saver is not None:
                saver.join()
        elif case["stop"] is not None:
            k = case["stop"]["after_reads"]
            sched.wait_until(lambda: reader.vf_reads_started >= k or tw._vf_state.status == DONE)
            for _ in range(case["stop"]["extra_steps"]):
                sched.yield_point("main-delay")
            holder["stop_called"] = True
            tw.stop_all()
            stop_takes_effect()  # nothing observable was done (every thread had already ended): the stop is its own return
            if saver is not None:
                saver.join()  # as the command line does

    # a consumer working off a long backlog through a mailbox the scheduler cannot see into makes no event the scheduler counts
    # as progress: the no-progress verdict allows for as many steps as there are blocks to work off
    strategy.allow_idle_steps = max(getattr(strategy, "allow_idle_steps", 0), 8 * len(case["v"]))
    with contextlib.redirect_stdout(stdout):
        rng = random.Random(case["sched_seed"] ^ 0x5EED)
        sched, info = H.run_scheduled(script, strategy, step_cap=max(40000, 12 * len(case["v"]) + 5000), line_p=case.get("line_p", 0.0), line_rng=rng,
                                      wall_cap_s=max(60.0, len(case["v"]) / 50), gran=case.get("line_gran", "line"),
                                      scope=case.get("line_scope", "workers"))
    res.sched = sched
    res.info = info
    res.holder = holder
    res.stdout = stdout.getvalue()
    reader = holder.get("reader")
    res.inner_blocks = list(reader.vf_blocks) if reader else []
    res.reads_started = reader.vf_reads_started if reader else 0
    res.writer_backlog = max(sched.max_queue_depth, getattr(reader, "vf_max_idle_reads", 0) if reader else 0)
    res.outer_blocks = list(holder["proxy"].vf_seen) if "proxy" in holder else res.inner_blocks
    tw = holder.get("tw")
    res.detections = list(tw.detections) if tw else []
    res.observers = holder.get("observers", [])
    res.thread_states = [(st.name, st.status) for st in sched.states]
    res.os_alive = [st.name for st in sched.states if st.thread is not None and st.name != "main" and threading.Thread.is_alive(st.thread)]
    return res


def clean_dir(tmpdir):
    import shutil

    for f in os.listdir(tmpdir):
        p = os.path.join(tmpdir, f)
        shutil.rmtree(p) if os.path.isdir(p) else os.unlink(p)


def small_pipeline_case(rng, nblocks, observers, saver, stop_after=None):
    """A tiny pipeline for systematic schedule enumeration: few blocks, few threads."""
    case = random_pipeline_case(rng, max_windows=nblocks, want_saver=saver)
    case.update(rate=10, width=2, channels=1, block=2, w=0.2, partial=0, uc=None, thr=50.0, random_pcm=False,
                min_len=1, max_len=2, max_sil=rng.choice((0, 1)), drop=False, strict=False)
    v = [rng.choice((1, 1, 0)) for _ in range(nblocks)]
    if not any(v):
        v[0] = 1
    case["v"] = v
    case["observers"] = list(observers)
    case["observer_timeouts"] = [0.2] * len(observers)
    if saver:
        case["saver"] = {"cache_size_sec": rng.choice((0.0001, 0.2, 100.0))}
    case["stop"] = None if stop_after is None else {"after_reads": stop_after, "extra_steps": 0}
    case["line_p"] = 0.0
    case.pop("hop", None)
    case["strategy"] = "systematic"
    return case


def verdict_problems(res):
    """Scheduler-level verdicts. -> list of (key, detail) ; 'inconclusive' keys start with '?'."""
    out = []
    s = res.sched
    if res.info.get("script_exception"):
        out.append(("harness-script-exception", {"trace": res.info["script_exception"]}))
    if s.aborted is not None:
        kind, detail = s.aborted
        if kind in ("step-cap", "wall-cap"):
            out.append(("?" + kind, detail))
        elif kind == "deadlock":
            out.append(("deadlock", detail))
        elif kind == "non-termination":
            out.append(("thread-never-terminates", detail))
    for name, exc in s.thread_exceptions:
        if "injected source fault" in exc or "injected observer fault" in exc or "injected close fault" in exc:
            continue  # the harness injected this one on purpose
        out.append(("worker-thread-raised:" + name.split(":")[-1].rstrip("0123456789"), {"thread": name, "exception": exc[:300]}))
    if s.aborted is None:
        not_done = [n for n, st in res.thread_states if st != DONE]
        if not_done:
            out.append(("threads-not-terminated", {"threads": not_done}))
        if res.os_alive:
            out.append(("os-threads-still-alive", {"threads": res.os_alive}))
    return out


def wav_read(path):
    with wave.open(path, "rb") as fp:
        return fp.readframes(fp.getnframes()), fp.getframerate(), fp.getsampwidth(), fp.getnchannels()


def case_json(case):
    c = AC.case_json(case)
    return c


def case_from_json(c):
    return AC.case_from_json(c)


def trace_summary(res, limit=60):
    s = res.sched
    return {"steps": s.steps, "context_switches": s.context_switches, "timeouts_fired": s.timeouts_fired,
            "max_queue_depth": s.max_queue_depth, "decisions": s.decisions[:2000],
            "last_steps": [list(t) for t in s.trace[-limit:]], "threads": s.describe_threads()}


CHILD_SCRIPT = r"""
import sys, time, json
import auditok
import auditok.workers as W
from auditok.util import AudioReader

conf = json.load(open(sys.argv[1]))
data = open(conf["data"], "rb").read()


class Slow(AudioReader):
    def read(self):
        time.sleep(0.003)  # the stream outlives the main thread by far
        return AudioReader.read(self)


reader = Slow(data, block_dur=conf["w"], sampling_rate=conf["rate"], sample_width=conf["width"], channels=conf["channels"])
saver = W.StreamSaverWorker(reader, filename=conf["stream"], cache_size_sec=conf["cache"])
observers = [W.PrintWorker("{id} {start} {end}", "%S"),
             W.RegionSaverWorker(conf["regions"] + "/det_{id}.wav"),
             W.AudioEventsJoinerWorker(conf["silence"], conf["joined"], None, conf["rate"], conf["width"], conf["channels"])]
tw = W.TokenizerWorker(saver, observers, **conf["kw"])
saver.start()
tw.start_all()
# the main thread simply returns: the interpreter waits for the worker threads, as it does for any thread a program started
"""


def run_main_returns_child(case, data, tmpdir):
    """a program that builds the pipeline, calls start_all() and lets its main thread RETURN: "every worker thread terminates by
    itself" and "each observer processes every detection" hold for it too (the workers are ordinary threads the interpreter
    waits for).  -> dict(rc, stdout, stderr, stream, joined, regions_dir)"""
    import json
    import subprocess

    os.makedirs(os.path.join(tmpdir, "child-regions"), exist_ok=True)
    paths = dict(data=os.path.join(tmpdir, "child-in.raw"), stream=os.path.join(tmpdir, "child-stream.wav"),
                 joined=os.path.join(tmpdir, "child-joined.wav"), regions=os.path.join(tmpdir, "child-regions"))
    with open(paths["data"], "wb") as fp:
        fp.write(data)
    kw = {k: (bool(v) if k in ("drop_trailing_silence", "strict_min_dur") else v) for k, v in AC.split_kwargs(case).items() if k not in ("analysis_window", "aw")}
    conf = dict(paths, w=case["w"], rate=case["rate"], width=case["width"], channels=case["channels"], cache=0.01, silence=case["silence"], kw=kw)
    cpath = os.path.join(tmpdir, "child-conf.json")
    with open(cpath, "w") as fp:
        json.dump(conf, fp)
    spath = os.path.join(tmpdir, "child.py")
    with open(spath, "w") as fp:
        fp.write(CHILD_SCRIPT)
    env = dict(os.environ, PYTHONPATH=os.environ.get("VERIF_REPO", "/repo"), PYTHONDONTWRITEBYTECODE="1")
    try:
        r = subprocess.run([sys.executable, spath, cpath], capture_output=True, text=True, timeout=120, env=env)
    except subprocess.TimeoutExpired:
        return {"inconclusive": "child exceeded 120 s"}
    return dict(rc=r.returncode, stdout=r.stdout, stderr=r.stderr, **paths)
