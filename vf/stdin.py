"""Stand-ins for sys.stdin used by several checks."""

import io
import os
import threading


class PipeStdin:
    """A real os.pipe wrapped in io.BufferedReader (what sys.stdin.buffer is),
    fed by a writer thread that dribbles 1-7-byte, sample-unaligned chunks."""

    def __init__(self, data, rng, max_chunk=7):
        r, w = os.pipe()
        self.buffer = io.BufferedReader(io.FileIO(r, "rb", closefd=True))
        chunks = []
        i = 0
        while i < len(data):
            k = rng.randint(1, max_chunk)
            chunks.append(data[i : i + k])
            i += k

        def feed():
            try:
                for c in chunks:
                    os.write(w, c)
            except OSError:
                pass
            finally:
                os.close(w)

        self.thread = threading.Thread(target=feed, daemon=True, name="vf-stdin-feeder")
        self.thread.start()

    def close(self):
        try:
            self.buffer.close()  # unblocks a feeder stuck on a full pipe
        except Exception:
            pass
        self.thread.join(5)
