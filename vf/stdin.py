"""Stand-ins for sys.stdin used by several checks."""

import array
import fcntl
import io
import os
import termios
import threading
import time


class PipeStdin:
    """A real os.pipe wrapped in io.BufferedReader (what sys.stdin.buffer is),
    with fileno() like the real sys.stdin, fed by a writer thread that
    dribbles small, sample- and window-unaligned chunks.  With lockstep=True the
    producer is 'slow': it writes the next chunk only once the pipe has been
    drained, so a consumer that bypasses the buffered reader sees short reads."""

    def __init__(self, data, rng, max_chunk=7, lockstep=True, feeder="thread", header=None):
        r, w = os.pipe()
        self.pid = None
        self.header = header
        if header is not None:
            # a one-line text header precedes the audio (a common pipe protocol); the application reads it through the buffered
            # layer - which reads AHEAD - and then hands standard input to the library
            data = header + data
            max_chunk, lockstep = 8192, False
        self.buffer = io.BufferedReader(io.FileIO(r, "rb", closefd=True))
        self._stop = False
        chunks = []
        i = 0
        while i < len(data):
            k = rng.randint(1, max_chunk)
            chunks.append(data[i : i + k])
            i += k

        def pending():
            buf = array.array("i", [0])
            try:
                fcntl.ioctl(w, termios.FIONREAD, buf)
                return buf[0]
            except OSError:
                return 0

        def feed():
            try:
                for c in chunks:
                    if lockstep:
                        spins = 0
                        while pending() > 0 and not self._stop:
                            spins += 1
                            time.sleep(0 if spins < 50 else 0.0002)
                    if self._stop:
                        break
                    os.write(w, c)
            except OSError:
                pass
            finally:
                try:
                    os.close(w)
                except OSError:
                    pass

        if feeder == "process":
            # the producer is another PROCESS, as it is for a real `producer | tool`: the tool's own process has no extra
            # thread (auditok's command line waits until it is the only thread left) and a tool that stops reading early
            # leaves the producer blocked, not itself
            pid = os.fork()
            if pid == 0:
                try:
                    os.close(r)
                except OSError:
                    pass
                try:
                    feed()
                finally:
                    os._exit(0)
            os.close(w)
            self.pid = pid
            self.thread = None
            return
        self.thread = threading.Thread(target=feed, daemon=True, name="vf-stdin-feeder")
        self.thread.start()

    def consume_header(self):
        """what the application does before the library sees standard input"""
        line = self.buffer.readline()
        assert line == self.header, (line, self.header)

    def fileno(self):
        """like the real sys.stdin: code that goes to the descriptor itself reads the same pipe"""
        return self.buffer.fileno()

    def close(self):
        self._stop = True
        try:
            self.buffer.close()  # unblocks a feeder stuck on a full pipe
        except Exception:
            pass
        if self.pid is not None:
            import signal

            try:
                os.kill(self.pid, signal.SIGKILL)
            except OSError:
                pass
            try:
                os.waitpid(self.pid, 0)
            except OSError:
                pass
            self.pid = None
            return
        self.thread.join(5)
