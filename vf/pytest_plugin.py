"""pytest plugin: runs the repository's own tests with passive monitors on.
   pytest -p vf.pytest_plugin        (VF_PLUGIN_OUT=<json path> receives counters and violations)

The monitors record and check but never change a result and never raise into
the code under test."""

import json
import os

from auditok import core as _core

from .models import inv
from .models.seg import seg

STATE = {"tokenize_calls": 0, "generator_calls": 0, "tokens": 0, "frames": 0, "checked_c04": 0, "unaligned": 0,
         "abandoned_generators": 0, "violations": [], "monitor_errors": []}


class _SourceProxy:
    def __init__(self, inner, log):
        self._inner = inner
        self._log = log

    def read(self):
        f = self._inner.read()
        if f is not None:
            self._log.append(f)
        return f

    def __getattr__(self, name):
        return getattr(self._inner, name)


_PARAMS = {}  # id(tokenizer) -> (min_length, max_length, max_continuous_silence, init_min, init_max_silence, mode, verdict log holder)


def _check(tk, frames, verdicts, tokens, complete, where):
    try:
        P = _PARAMS.get(id(tk))
        if P is None:
            STATE["monitor_errors"].append("tokenizer constructed outside the monitor")
            return
        min_length, max_length, max_sil, init_min, init_max_silence, mode = P[:6]
        STATE["tokens"] += len(tokens)
        STATE["frames"] += len(frames)
        toks = [tuple(t) for t in tokens]
        probs = list(inv.c01(frames, toks))
        strict = bool(mode & 2)
        drop = bool(mode & 4)
        probs += inv.c02(toks, min_length, max_length, strict)
        if len(verdicts) == len(frames):
            v = [1 if x else 0 for x in verdicts]
            probs += inv.c03(v, toks, max_length, max_sil, drop, init_min, init_max_silence)
            if complete and init_min <= 1 and max_sil >= 0:
                STATE["checked_c04"] += 1
                exp = seg(v, min_length, max_length, max_sil, strict, drop)
                got = [(s, e) for _, s, e in toks]
                if got != exp:
                    probs.append(("tokens-differ-from-model", {"observed": got[:20], "expected": exp[:20]}))
        else:
            STATE["unaligned"] += 1
        for key, detail in probs:
            if len(STATE["violations"]) < 50:
                detail = dict(detail)
                detail["where"] = where
                detail["params"] = list(P[:6])
                detail["validity"] = "".join("A" if x else "a" for x in verdicts)[:200]
                STATE["violations"].append([key, detail])
    except Exception as exc:  # never disturb the tests
        STATE["monitor_errors"].append(repr(exc)[:300])


def _install():
    cls = _core.StreamTokenizer
    orig_tokenize = cls.tokenize
    orig_init = cls.__init__

    import inspect

    sig = inspect.signature(orig_init)

    def __init__(self, validator, *a, **kw):
        # Observation without private attributes: the verdict the tokenizer RECEIVES for each frame is recorded by handing
        # the constructor a transparent wrapper of the caller's validator; the parameters are taken from the call itself.
        holder = {"log": None}
        wrapped = validator
        try:
            fn = validator if callable(validator) else (validator.is_valid if isinstance(validator, _core.DataValidator) else None)
            if fn is not None:
                def wrapped(frame, _fn=fn, _holder=holder):
                    r = _fn(frame)
                    log = _holder["log"]
                    if log is not None:
                        log.append(bool(r))
                    return r
        except Exception as exc:
            STATE["monitor_errors"].append(repr(exc)[:300])
            wrapped = validator
        orig_init(self, wrapped, *a, **kw)
        try:
            if getattr(self, "validator", None) is wrapped and wrapped is not validator:
                self.validator = validator  # the public attribute keeps showing what the caller passed
            b = sig.bind(self, validator, *a, **kw)
            b.apply_defaults()
            g = b.arguments
            _PARAMS[id(self)] = (g["min_length"], g["max_length"], g["max_continuous_silence"], g["init_min"], g["init_max_silence"], g["mode"], holder)
            if len(_PARAMS) > 20000:
                for k in list(_PARAMS)[:10000]:
                    del _PARAMS[k]
        except Exception as exc:
            STATE["monitor_errors"].append(repr(exc)[:300])

    def tokenize(self, data_source, callback=None, generator=False):
        where = os.environ.get("PYTEST_CURRENT_TEST", "?")
        frames, verdicts = [], []
        P = _PARAMS.get(id(self))
        if P is not None:
            P[6]["log"] = verdicts
        proxy = _SourceProxy(data_source, frames)
        STATE["tokenize_calls"] += 1
        if callback:
            seen = []

            def cb(*t):
                seen.append(t)
                return callback(*t)

            r = orig_tokenize(self, proxy, callback=cb)
            _check(self, frames, list(verdicts), seen, True, where)
            return r
        if generator:
            STATE["generator_calls"] += 1
            gen = orig_tokenize(self, proxy, generator=True)
            tk = self

            def wrapped():
                seen = []
                done = False
                try:
                    for t in gen:
                        seen.append(t)
                        yield t
                    done = True
                finally:
                    if not done:
                        STATE["abandoned_generators"] += 1
                    _check(tk, list(frames), list(verdicts), seen, done, where)

            return wrapped()
        r = orig_tokenize(self, proxy)
        _check(self, frames, list(verdicts), list(r), True, where)
        return r

    cls.__init__ = __init__
    cls.tokenize = tokenize


def _install_validator_monitor():
    from .models import energy as E
    from .monitors.validator import ValidatorMonitor

    STATE.update({"validator_verdicts": 0, "validator_verdicts_checked": 0})

    def on_verdict(args, data, result, energies):
        STATE["validator_verdicts"] += 1
        if args is None:
            return
        try:
            db = E.window_db(bytes(data), args["width"], args["channels"], args["uc"])
        except Exception:
            return  # mocks / deliberately malformed test data
        STATE["validator_verdicts_checked"] += 1
        if abs(db - args["thr"]) > 1e-9 and bool(result) != (db >= args["thr"]) and len(STATE["violations"]) < 50:
            STATE["violations"].append(["validator-verdict-differs-from-model",
                                        {"where": os.environ.get("PYTEST_CURRENT_TEST", "?"), "thr": args["thr"], "model_db": db,
                                         "window": bytes(data).hex()[:120], "got": bool(result), "args": {k: repr(v) for k, v in args.items()}}])

    ValidatorMonitor(on_verdict).install()


def _where():
    return os.environ.get("PYTEST_CURRENT_TEST", "?")


def _violation(key, detail):
    if len(STATE["violations"]) < 80:
        detail = dict(detail)
        detail["where"] = _where()
        STATE["violations"].append([key, detail])


def _guard(fn):
    """run a monitor's own checking code; whatever goes wrong in it is the monitor's problem, never the test's"""
    try:
        fn()
    except Exception as exc:
        if len(STATE["monitor_errors"]) < 20:
            STATE["monitor_errors"].append(repr(exc)[:300])


def _install_region_monitor():
    """C16 / C17 on every AudioRegion operation the repository's tests perform (keys region-slice:* and region-algebra:*)."""
    cls = _core.AudioRegion
    STATE.update({"region_slices_checked": 0, "region_concats_checked": 0, "region_repeats_checked": 0, "region_divisions_checked": 0,
                  "region_equalities_checked": 0})
    o_get, o_add, o_mul, o_div, o_eq = cls.__getitem__, cls.__add__, cls.__mul__, cls.__truediv__, cls.__eq__

    def params(r):
        return (r.sampling_rate, r.sample_width, r.channels)

    def __getitem__(self, index):
        r = o_get(self, index)

        def chk():
            if isinstance(index, slice) and index.step is None and all(b is None or type(b) is int for b in (index.start, index.stop)):
                fr = self.sample_width * self.channels
                a, b, _ = index.indices(len(self.data) // fr)
                exp = bytes(self.data[a * fr:max(a, b) * fr])
                STATE["region_slices_checked"] += 1
                if bytes(r.data) != exp or params(r) != params(self):
                    _violation("region-slice:differs-from-python-slice", {"index": repr(index), "n_samples": len(self.data) // fr, "params": params(self),
                                                                          "got_len": len(r.data), "expected_len": len(exp)})

        _guard(chk)
        return r

    def __add__(self, other):
        before = (bytes(self.data), bytes(other.data) if isinstance(other, cls) else None)
        r = o_add(self, other)

        def chk():
            if isinstance(other, cls) and isinstance(r, cls):
                STATE["region_concats_checked"] += 1
                if params(self) != params(other):
                    _violation("region-algebra:concatenation-of-different-parameters-produced-data", {"a": params(self), "b": params(other)})
                elif bytes(r.data) != before[0] + before[1] or params(r) != params(self):
                    _violation("region-algebra:concatenation-not-byte-exact", {"a_len": len(before[0]), "b_len": len(before[1]), "got_len": len(r.data)})
                if (bytes(self.data), bytes(other.data)) != before:
                    _violation("region-algebra:operand-altered", {"op": "+"})

        _guard(chk)
        return r

    def __mul__(self, n):
        before = bytes(self.data)
        r = o_mul(self, n)

        def chk():
            if type(n) is int and isinstance(r, cls):
                STATE["region_repeats_checked"] += 1
                if bytes(r.data) != before * n or params(r) != params(self) or bytes(self.data) != before:
                    _violation("region-algebra:repetition-not-byte-exact", {"n": n, "len": len(before), "got_len": len(r.data)})

        _guard(chk)
        return r

    def __truediv__(self, n):
        before = bytes(self.data)
        r = o_div(self, n)

        def chk():
            if type(n) is int and n >= 1 and isinstance(r, list) and before:
                STATE["region_divisions_checked"] += 1
                fr = self.sample_width * self.channels
                lens = [len(x.data) // fr for x in r]
                if (b"".join(bytes(x.data) for x in r) != before or len(r) != min(n, len(before) // fr) or max(lens) - min(lens) > 1
                        or any(params(x) != params(self) for x in r) or bytes(self.data) != before):
                    _violation("region-algebra:division-wrong", {"n": n, "n_samples": len(before) // fr, "piece_lengths": lens[:50]})

        _guard(chk)
        return r

    def __eq__(self, other):
        r = o_eq(self, other)

        def chk():
            if isinstance(other, cls) and isinstance(r, bool):
                STATE["region_equalities_checked"] += 1
                exp = bytes(self.data) == bytes(other.data) and params(self) == params(other)
                if r != exp:
                    _violation("region-algebra:equality-wrong", {"got": r, "expected": exp, "a": params(self), "b": params(other)})

        _guard(chk)
        return r

    cls.__getitem__, cls.__add__, cls.__mul__, cls.__truediv__, cls.__eq__ = __getitem__, __add__, __mul__, __truediv__, __eq__


def _install_source_monitor():
    """C11's local clauses on every read() the repository's tests perform on a buffer / raw / wave source (keys source:*):
    a chunk is never empty, holds whole samples, and never more than asked for; for the buffer source the chunk is the
    underlying data at the position read back before the call, and position advances by the chunk."""
    from auditok import io as _io

    STATE.update({"source_reads_checked": 0, "source_reads_none": 0})

    def wrap(cls, name):
        o_read = cls.read

        def read(self, size):
            pos = None
            try:
                if name == "buffer":
                    pos = self.position
            except Exception:
                pos = None
            r = o_read(self, size)

            def chk():
                if r is None:
                    STATE["source_reads_none"] += 1
                    return
                STATE["source_reads_checked"] += 1
                fr = self.sample_width * self.channels
                if len(r) == 0:
                    _violation("source:empty-chunk-instead-of-None", {"kind": name, "size": repr(size)})
                elif len(r) % fr:
                    _violation("source:chunk-not-whole-samples", {"kind": name, "size": repr(size), "len": len(r), "frame": fr})
                elif type(size) is int and size >= 0 and len(r) > size * fr:
                    _violation("source:chunk-larger-than-requested", {"kind": name, "size": size, "len": len(r), "frame": fr})
                if name == "buffer" and pos is not None and type(size) is int:
                    data = bytes(self.data)
                    want = data[pos * fr:] if size < 0 else data[pos * fr:(pos + size) * fr]
                    if bytes(r) != want or self.position != pos + len(r) // fr:
                        _violation("source:buffer-chunk-not-at-position", {"size": size, "position_before": pos, "position_after": self.position,
                                                                           "len": len(r), "expected_len": len(want)})

            _guard(chk)
            return r

        cls.read = read

    wrap(_io.BufferAudioSource, "buffer")
    wrap(_io.RawAudioSource, "raw")
    wrap(_io.WaveAudioSource, "wave")


def _install_reader_monitor():
    """C10's local clauses on every AudioReader the repository's tests read (keys reader:*): every block has block_size
    samples except the one directly before None; after None only None."""
    from auditok import util as _util

    STATE.update({"reader_blocks_checked": 0, "reader_streams_ended": 0})
    cls = _util.AudioReader
    o_read = cls.read

    def read(self):
        r = o_read(self)

        def chk():
            st = self.__dict__.setdefault("_vf_reader_state", {"short": False, "ended": False})
            fr = self.sample_width * self.channels
            if r is None:
                if not st["ended"]:
                    STATE["reader_streams_ended"] += 1
                st["ended"] = True
                st["short"] = False
                return
            STATE["reader_blocks_checked"] += 1
            if st["ended"]:
                _violation("reader:block-after-None", {"len": len(r)})
            if st["short"]:
                _violation("reader:short-block-not-last", {"len": len(r), "block_size": self.block_size})
            if len(r) == 0 or len(r) % fr or len(r) > self.block_size * fr:
                _violation("reader:block-size-wrong", {"len": len(r), "block_size": self.block_size, "frame": fr})
            st["short"] = len(r) < self.block_size * fr

        _guard(chk)
        return r

    # rewind / open / close reach the inner readers through AudioReader.__getattr__: looking one of them up starts a new pass
    # (resetting too often only loses checks, it never raises an alarm)
    o_getattr = cls.__getattr__

    def __getattr__(self, name):
        if name in ("rewind", "open", "close"):
            self.__dict__.pop("_vf_reader_state", None)
        return o_getattr(self, name)

    cls.read = read
    cls.__getattr__ = __getattr__


def _install_split_monitor():
    """C05's own-bytes clause on every split() of a bytes object or an AudioRegion the repository's tests perform (keys split:*)."""
    STATE.update({"split_calls_checked": 0, "split_regions_checked": 0})
    o_split = _core.split

    def split(input, *a, **kw):
        out = o_split(input, *a, **kw)
        src = None
        try:
            if isinstance(input, _core.AudioRegion):
                src = (bytes(input.data), input.sampling_rate, input.sample_width, input.channels)
            elif isinstance(input, bytes):
                g = lambda *names: next((kw[n] for n in names if n in kw), None)
                src = (input, g("sampling_rate", "sr"), g("sample_width", "sw"), g("channels", "ch"))
                if None in src:
                    src = None
            if kw.get("max_read", kw.get("mr")) is not None:
                src = None
        except Exception:
            src = None
        if src is None:
            return out
        STATE["split_calls_checked"] += 1
        data, sr, sw, ch = src
        state = {"prev_end": 0}

        def check(r):
            def chk():
                STATE["split_regions_checked"] += 1
                fr = sw * ch
                a0 = round(r.start * sr)
                if abs(a0 - r.start * sr) > 1e-6 or bytes(r.data) != data[a0 * fr:a0 * fr + len(r.data)] or len(r.data) % fr:
                    _violation("split:region-bytes-differ-from-input-at-reported-time", {"start": r.start, "len": len(r.data), "params": [sr, sw, ch]})
                if (r.sampling_rate, r.sample_width, r.channels) != (sr, sw, ch):
                    _violation("split:region-parameters-differ-from-input", {"got": [r.sampling_rate, r.sample_width, r.channels], "params": [sr, sw, ch]})
                if a0 < state["prev_end"]:
                    _violation("split:regions-overlap-or-out-of-order", {"start_sample": a0, "previous_end_sample": state["prev_end"]})
                if abs((r.end - r.start) - r.duration) > 1e-9 or abs(r.duration - (len(r.data) // fr) / sr) > 1e-9:
                    _violation("split:times-inconsistent", {"start": r.start, "end": r.end, "duration": r.duration, "samples": len(r.data) // fr})
                state["prev_end"] = a0 + len(r.data) // fr

            _guard(chk)

        if isinstance(out, list):
            for r in out:
                check(r)
            return out

        def gen():
            for r in out:
                check(r)
                yield r

        return gen()

    _core.split = split
    import auditok

    if getattr(auditok, "split", None) is o_split:
        auditok.split = split


MONITORS = {"tokenizer": _install, "validator": _install_validator_monitor, "region": _install_region_monitor,
            "source": _install_source_monitor, "reader": _install_reader_monitor, "split": _install_split_monitor}


def pytest_configure(config):
    wanted = [m for m in os.environ.get("VF_PLUGIN_MONITORS", "tokenizer,validator").split(",") if m]
    STATE["monitors"] = wanted
    for name in wanted:
        try:
            MONITORS[name]()
        except Exception as exc:
            STATE["monitor_errors"].append(name + ": " + repr(exc)[:300])


def pytest_sessionfinish(session, exitstatus):
    out = os.environ.get("VF_PLUGIN_OUT")
    if out:
        with open(out, "w") as fp:
            json.dump(STATE, fp, default=repr)
