"""pytest plugin: runs the repository's own tests with passive monitors on.
   pytest -p vf.pytest_plugin        (VF_PLUGIN_OUT=<json path> receives counters and violations)

The monitors record and check but never change a result and never raise into
the code under test."""

import json
import os

from auditok import core as _core

from .models import inv
from .models.seg import seg

STATE = {"tokenize_calls": 0, "generator_calls": 0, "tokens": 0, "frames": 0, "checked_c04": 0, "unaligned": 0,
         "abandoned_generators": 0, "violations": [], "monitor_errors": []}


class _SourceProxy:
    def __init__(self, inner, log):
        self._inner = inner
        self._log = log

    def read(self):
        f = self._inner.read()
        if f is not None:
            self._log.append(f)
        return f

    def __getattr__(self, name):
        return getattr(self._inner, name)


def _check(tk, frames, verdicts, tokens, complete, where):
    try:
        STATE["tokens"] += len(tokens)
        STATE["frames"] += len(frames)
        toks = [tuple(t) for t in tokens]
        probs = list(inv.c01(frames, toks))
        strict = bool(tk._mode & 2)
        drop = bool(tk._mode & 4)
        probs += inv.c02(toks, tk.min_length, tk.max_length, strict)
        if len(verdicts) == len(frames):
            v = [1 if x else 0 for x in verdicts]
            probs += inv.c03(v, toks, tk.max_length, tk.max_continuous_silence, drop, tk.init_min, tk.init_max_silent)
            if complete and tk.init_min <= 1 and tk.max_continuous_silence >= 0:
                STATE["checked_c04"] += 1
                exp = seg(v, tk.min_length, tk.max_length, tk.max_continuous_silence, strict, drop)
                got = [(s, e) for _, s, e in toks]
                if got != exp:
                    probs.append(("tokens-differ-from-model", {"observed": got[:20], "expected": exp[:20]}))
        else:
            STATE["unaligned"] += 1
        for key, detail in probs:
            if len(STATE["violations"]) < 50:
                detail = dict(detail)
                detail["where"] = where
                detail["params"] = [tk.min_length, tk.max_length, tk.max_continuous_silence, tk.init_min, tk.init_max_silent, tk._mode]
                detail["validity"] = "".join("A" if x else "a" for x in verdicts)[:200]
                STATE["violations"].append([key, detail])
    except Exception as exc:  # never disturb the tests
        STATE["monitor_errors"].append(repr(exc)[:300])


def _install():
    cls = _core.StreamTokenizer
    orig_tokenize = cls.tokenize
    orig_init = cls.__init__

    def __init__(self, validator, *a, **kw):
        orig_init(self, validator, *a, **kw)
        try:
            inner = self._is_valid
            tk = self

            def recording(frame):
                r = inner(frame)
                log = getattr(tk, "_vf_verdicts", None)
                if log is not None:
                    log.append(bool(r))
                return r

            self._is_valid = recording
        except Exception as exc:
            STATE["monitor_errors"].append(repr(exc)[:300])

    def tokenize(self, data_source, callback=None, generator=False):
        where = os.environ.get("PYTEST_CURRENT_TEST", "?")
        frames, verdicts = [], []
        self._vf_verdicts = verdicts
        proxy = _SourceProxy(data_source, frames)
        STATE["tokenize_calls"] += 1
        if callback:
            seen = []

            def cb(*t):
                seen.append(t)
                return callback(*t)

            r = orig_tokenize(self, proxy, callback=cb)
            _check(self, frames, list(verdicts), seen, True, where)
            return r
        if generator:
            STATE["generator_calls"] += 1
            gen = orig_tokenize(self, proxy, generator=True)
            tk = self

            def wrapped():
                seen = []
                done = False
                try:
                    for t in gen:
                        seen.append(t)
                        yield t
                    done = True
                finally:
                    if not done:
                        STATE["abandoned_generators"] += 1
                    _check(tk, list(frames), list(verdicts), seen, done, where)

            return wrapped()
        r = orig_tokenize(self, proxy)
        _check(self, frames, list(verdicts), list(r), True, where)
        return r

    cls.__init__ = __init__
    cls.tokenize = tokenize


def _install_validator_monitor():
    from .models import energy as E
    from .monitors.validator import ValidatorMonitor

    STATE.update({"validator_verdicts": 0, "validator_verdicts_checked": 0})

    def on_verdict(args, data, result, energies):
        STATE["validator_verdicts"] += 1
        if args is None:
            return
        try:
            db = E.window_db(bytes(data), args["width"], args["channels"], args["uc"])
        except Exception:
            return  # mocks / deliberately malformed test data
        STATE["validator_verdicts_checked"] += 1
        if abs(db - args["thr"]) > 1e-9 and bool(result) != (db >= args["thr"]) and len(STATE["violations"]) < 50:
            STATE["violations"].append(["validator-verdict-differs-from-model",
                                        {"where": os.environ.get("PYTEST_CURRENT_TEST", "?"), "thr": args["thr"], "model_db": db,
                                         "window": bytes(data).hex()[:120], "got": bool(result), "args": {k: repr(v) for k, v in args.items()}}])

    ValidatorMonitor(on_verdict).install()


def pytest_configure(config):
    _install()
    try:
        _install_validator_monitor()
    except Exception as exc:
        STATE["monitor_errors"].append(repr(exc)[:300])


def pytest_sessionfinish(session, exitstatus):
    out = os.environ.get("VF_PLUGIN_OUT")
    if out:
        with open(out, "w") as fp:
            json.dump(STATE, fp, default=repr)
