"""Passive monitor for AudioEnergyValidator: records constructor arguments and
every (data, verdict); records the energies auditok.signal.calculate_energy
returned during the call.  Never changes a result, never raises into the code
under test."""

import threading

import numpy as np

import auditok.signal
import auditok.util


class ValidatorMonitor:
    def __init__(self, on_verdict=None):
        self.on_verdict = on_verdict  # fn(args: dict, data, result, energies: list)
        self.calls = 0
        self.energy_calls = 0
        self._tls = threading.local()
        self._args = {}
        self._installed = False

    def install(self):
        cls = auditok.util.AudioEnergyValidator
        self._orig_init = cls.__init__
        self._orig_is_valid = cls.is_valid
        self._orig_energy = auditok.signal.calculate_energy
        mon = self

        def __init__(self, *args, **kwargs):
            mon._orig_init(self, *args, **kwargs)
            try:
                names = ("energy_threshold", "sample_width", "channels", "use_channel")
                d = dict(zip(names, args))
                d.update(kwargs)
                self._vf_args = dict(thr=d.get("energy_threshold"), width=d.get("sample_width"), channels=d.get("channels"), uc=d.get("use_channel"))
            except Exception:
                pass

        def is_valid(self, data):
            stack = getattr(mon._tls, "stack", None)
            if stack is None:
                stack = mon._tls.stack = []
            stack.append([])
            try:
                result = mon._orig_is_valid(self, data)
            finally:
                energies = stack.pop()
            mon.calls += 1
            if mon.on_verdict is not None:
                try:
                    mon.on_verdict(getattr(self, "_vf_args", None), data, result, energies)
                except Exception as exc:  # the monitor must never disturb the code under test
                    mon.monitor_errors = getattr(mon, "monitor_errors", 0) + 1
                    mon.last_error = repr(exc)
            return result

        def calculate_energy(*args, **kwargs):
            # pure pass-through: a refactoring may add parameters to the hooked function
            value = mon._orig_energy(*args, **kwargs)
            mon.energy_calls += 1
            stack = getattr(mon._tls, "stack", None)
            if stack:
                stack[-1].append(value)
            return value

        cls.__init__ = __init__
        cls.is_valid = is_valid
        auditok.signal.calculate_energy = calculate_energy
        self._installed = True
        return self

    def uninstall(self):
        if self._installed:
            cls = auditok.util.AudioEnergyValidator
            cls.__init__ = self._orig_init
            cls.is_valid = self._orig_is_valid
            auditok.signal.calculate_energy = self._orig_energy
            self._installed = False

    def __enter__(self):
        return self.install()

    def __exit__(self, *a):
        self.uninstall()


def scalar_energy(energies):
    """The single energy value behind a verdict, or None when the hook saw
    nothing usable (a refactoring may compute energy elsewhere)."""
    if len(energies) != 1:
        return None
    arr = np.asarray(energies[0], dtype=np.float64).ravel()
    if arr.size != 1:
        return None
    return float(arr[0])
