"""C18 - audio survives save/load unchanged; load(skip, max_read) equals slicing."""

import math
import os
import shutil
import struct
import sys
import tempfile
import wave
from fractions import Fraction
from pathlib import Path

import auditok

from ..gen import audio as A
from auditok import AudioRegion
from auditok.io import from_file, to_file

from ..models import energy as E

ID = "C18"
LEVEL = "exploration"
TIERS = {"quick": {"shards": 16, "budget_s": 120, "random": 1200},
         "thorough": {"shards": 16, "budget_s": 900, "random": 40000}}
RULE = ("Random audio (widths 1/2/4, 1-4 channels, rates 8..48000, 0..60 samples) written with to_file()/region.save() as "
        "wav or raw (by extension, no extension, explicit format incl. 'wave', str and Path names) and read back with "
        "load()/from_file() eagerly and lazily.  The two halves are also observed separately: files written by auditok are read "
        "with stdlib wave/open, files written with stdlib are read by auditok.  Oracle: identical bytes (+rate/width/channels for "
        "wav); returned name == template.format(start,end,duration); exists_ok=False on an existing path -> FileExistsError, file "
        "unchanged and never opened for writing (sys.addaudithook 'open' events); load(x, skip, max_read).data == "
        "full[round(s*rate) : round(s*rate)+round(m*rate)] incl. empty results and values beyond the end (round = Python's round(), ties to even); Also: skips of 2^20 / 2^22 / 2^23 samples on 2-3 channel audio (bytes and lazy raw files); numpy / array / memoryview / bytearray containers of 16-33 MiB written raw and wav.  numpy() has shape (channels, samples) and [c][i] equals the struct-decoded signed little-endian value.  "
        "Non-trivial = non-empty audio; distinct = distinct (audio, format, operation).")
ASSUMPTIONS = [
    "the harness reads files with stdlib wave/open and decodes PCM with struct, never with auditok",
    "negative skip/max_read are outside the statement and not generated",
    "compressed formats need pydub/ffmpeg, which are not installed: not covered",
    "held means: held on the executions listed in coverage",
]

_AUDIT = {"on": False, "events": []}
_hook_installed = False


def _install_hook():
    global _hook_installed
    if _hook_installed:
        return

    def hook(event, args):
        if event == "open" and _AUDIT["on"]:
            try:
                _AUDIT["events"].append((str(args[0]), args[1], args[2]))
            except Exception:
                pass

    sys.addaudithook(hook)
    _hook_installed = True


def wav_write(path, data, rate, width, channels):
    with wave.open(str(path), "wb") as fp:
        fp.setframerate(rate)
        fp.setsampwidth(width)
        fp.setnchannels(channels)
        fp.writeframes(data)


def wav_read(path):
    with wave.open(str(path), "rb") as fp:
        return fp.readframes(fp.getnframes()), fp.getframerate(), fp.getsampwidth(), fp.getnchannels()


def round_cands(x, rate):
    """round(s*rate) as the statement spells it: Python's round() of the product (ties to even)."""
    return {round(x * rate)}


def gen_audio(rng):
    width, channels = rng.choice((1, 2, 4)), rng.choice((1, 2, 3, 4))
    rate = rng.choice((8, 10, 100, 8000, 16000, 44100, 48000))
    n = rng.choice((0, 1, 2, rng.randint(0, 12), rng.randint(0, 60)))
    return A.random_bytes(rng, n, width, channels), rate, width, channels


def check_write(ctx, rng, tmp, data, rate, width, channels):
    """auditok writes, stdlib reads."""
    fmt = rng.choice(("wav", "raw"))
    spelling = rng.randrange(8)
    name = {0: f"a.{fmt}", 1: f"b.{fmt.upper()}", 2: "noext", 3: "c.bin", 4: f"d.{'raw' if fmt == 'wav' else 'wav'}", 5: f"e.{fmt}",
            6: f"s_$TAKE.{fmt}", 7: f"s $TAKE %TAKE% ~x.{fmt}"}[spelling]  # $NAME / ${NAME} of a DEFINED variable are just characters
    explicit = None
    if spelling == 2:
        explicit = None if fmt == "raw" else rng.choice(("wav", "wave", "WAV"))
    elif spelling in (3, 4):
        explicit = fmt if fmt == "raw" else rng.choice(("wav", "wave"))
    path = os.path.join(tmp, name)
    use_path_obj = spelling == 5
    api = rng.choice(("to_file", "save"))
    case = {"op": "write", "api": api, "name": name, "audio_format": explicit, "fmt": [rate, width, channels], "data": data.hex(), "path_obj": use_path_obj}
    ctx.case(repr(case), bool(data))
    ctx.count("writes_" + api)
    ctx.count("writes_" + fmt)
    target = Path(path) if use_path_obj else path
    try:
        if api == "to_file":
            to_file(data, target, explicit, sr=rate, sw=width, ch=channels) if rng.random() < 0.5 else \
                to_file(data, target, audio_format=explicit, sampling_rate=rate, sample_width=width, channels=channels)
        else:
            ret = AudioRegion(data, rate, width, channels).save(target, explicit)
            if str(ret) != str(target):
                ctx.violation("save-returns-wrong-name", {"case": case, "returned": str(ret)})
    except Exception as exc:
        ctx.violation(f"write-raises:{type(exc).__name__}", {"case": case, "exception": repr(exc)[:300]})
        return None
    try:
        if fmt == "wav":
            got, r, w, c = wav_read(path)
            if (r, w, c) != (rate, width, channels):
                ctx.violation("wav-header-differs-from-audio-parameters", {"case": case, "header": [r, w, c]})
                return None
        else:
            with open(path, "rb") as fp:
                got = fp.read()
    except Exception as exc:
        ctx.violation("written-file-unreadable-by-stdlib:" + type(exc).__name__, {"case": case, "exception": repr(exc)[:200]})
        return None
    if got != data:
        ctx.violation(f"written-{fmt}-bytes-differ", {"case": case, "got_len": len(got), "expected_len": len(data)})
        return None
    return path, fmt


def check_read(ctx, rng, tmp, data, rate, width, channels):
    """stdlib writes, auditok reads (eager and lazy, load and from_file)."""
    fmt = rng.choice(("wav", "raw"))
    named = rng.choice((True, True, False))
    name = (f"in.{fmt}" if rng.random() < 0.7 else f"in_$TAKE_${{TAKE}}.{fmt}") if named else "in_noext"
    path = os.path.join(tmp, name)
    if fmt == "wav":
        wav_write(path, data, rate, width, channels)
    else:
        with open(path, "wb") as fp:
            fp.write(data)
    lazy = rng.random() < 0.5
    api = rng.choice(("load", "from_file", "region_load"))
    kw = {}
    if not named:
        kw["audio_format"] = fmt  # the short alias 'fmt' is C09's subject (split() only)
    if fmt == "raw":
        kw.update(dict(sr=rate, sw=width, ch=channels) if rng.random() < 0.5 else dict(sampling_rate=rate, sample_width=width, channels=channels))
    if lazy:
        kw["large_file"] = True
    target = Path(path) if rng.random() < 0.3 and named else path
    case = {"op": "read", "api": api, "name": name, "kw": {k: v for k, v in kw.items()}, "fmt": [rate, width, channels], "data": data.hex()}
    ctx.case(repr(case), bool(data))
    ctx.count("reads_" + api)
    ctx.count("reads_lazy" if lazy else "reads_eager")
    try:
        if api == "from_file":
            src = from_file(target, **kw)
            src.open()
            got = src.read(-1) or b""
            params = (src.sampling_rate, src.sample_width, src.channels)
            src.close()
        else:
            reg = auditok.load(target, **kw) if api == "load" else AudioRegion.load(target, **kw)
            got, params = bytes(reg), (reg.sampling_rate, reg.sample_width, reg.channels)
    except Exception as exc:
        key = "read-raises-on-empty-audio" if not data else "read-raises"
        ctx.violation(f"{key}:{type(exc).__name__}", {"case": case, "exception": repr(exc)[:300]})
        return
    if params != (rate, width, channels):
        ctx.violation("loaded-audio-parameters-differ", {"case": case, "got": list(params)})
    elif got != data:
        ctx.violation(f"loaded-{fmt}-bytes-differ", {"case": case, "got_len": len(got), "expected_len": len(data)})


def check_roundtrip(ctx, rng, tmp, data, rate, width, channels):
    w = check_write(ctx, rng, tmp, data, rate, width, channels)
    if not w:
        return
    path, fmt = w
    lazy = rng.random() < 0.5
    kw = {"audio_format": fmt, "large_file": lazy}
    if fmt == "raw":
        kw.update(sr=rate, sw=width, ch=channels)
    case = {"op": "roundtrip", "file": os.path.basename(path), "fmt": [rate, width, channels], "data": data.hex(), "lazy": lazy}
    ctx.count("roundtrips")
    try:
        reg = auditok.load(path, **kw)
    except Exception as exc:
        key = "read-raises-on-empty-audio" if not data else "read-raises"
        ctx.violation(f"{key}:{type(exc).__name__}", {"case": case, "exception": repr(exc)[:300]})
        return
    if bytes(reg) != data or (reg.sampling_rate, reg.sample_width, reg.channels) != (rate, width, channels):
        ctx.violation("roundtrip-changes-audio", {"case": case})


def check_template_and_exists(ctx, rng, tmp, data, rate, width, channels):
    start = rng.choice((0.0, 1.5, 2.25, 10 / 3, 0.1))
    reg = AudioRegion(data, rate, width, channels, start)
    ext = rng.choice(("wav", "raw"))
    template = os.path.join(tmp, rng.choice(("ev_{start}_{end}." + ext, "ev_{start:.3f}-{end:.3f}_{duration:.3f}." + ext,
                                             "ev_{duration}." + ext, "plain." + ext, "x{start:06.2f}." + ext,
                                             # characters that mean something to a shell or to os.path.expandvars mean nothing in a file name
                                             # (TAKE is defined in the environment of every check process)
                                             "pc_{duration:.0%}." + ext, "p_{start:.1%}_{duration:>8.2%}." + ext,  # '%' is float's own percent presentation type
                                             "take_$TAKE_{start}." + ext, "take_${{TAKE}}_{end}." + ext, "%TAKE%_{duration}." + ext)))
    expected = template.format(start=reg.start, end=reg.end, duration=reg.duration)
    case = {"op": "save-template", "template": os.path.basename(template), "start": start, "fmt": [rate, width, channels], "nbytes": len(data)}
    ctx.case(repr(case), bool(data))
    ctx.count("template_saves")
    try:
        ret = reg.save(template)
    except Exception as exc:
        ctx.violation("save-raises:" + type(exc).__name__, {"case": case, "exception": repr(exc)[:200]})
        return
    if ret != expected:
        ctx.violation("save-name-differs-from-template", {"case": case, "returned": os.path.basename(str(ret)), "expected": os.path.basename(expected)})
        return
    if not os.path.exists(expected):
        ctx.violation("saved-file-missing", {"case": case})
        return
    # exists_ok=False must refuse, leave the file alone and never open it for writing
    with open(expected, "rb") as fp:
        before = fp.read()
    other = AudioRegion(bytes(len(data) + width * channels), rate, width, channels, start)
    if other.duration != reg.duration and ("{end" in template or "{duration" in template):
        other = AudioRegion(bytes(len(data)) if data else b"", rate, width, channels, start)
    target = rng.choice((template, Path(expected)))
    _AUDIT["events"] = []
    _AUDIT["on"] = True
    try:
        other.save(target, exists_ok=False)
        raised = None
    except FileExistsError:
        raised = "FileExistsError"
    except Exception as exc:
        raised = type(exc).__name__
    finally:
        _AUDIT["on"] = False
    ctx.count("exists_ok_false_checks")
    writes = [e for e in _AUDIT["events"] if os.path.abspath(e[0]) == os.path.abspath(expected) and e[1] and any(m in e[1] for m in "wa+x")]
    with open(expected, "rb") as fp:
        after = fp.read()
    cj = dict(case, target_type=type(target).__name__)
    if raised != "FileExistsError":
        ctx.violation("exists_ok-false-does-not-raise-FileExistsError", {"case": cj, "raised": raised})
    if after != before:
        ctx.violation("exists_ok-false-overwrote-the-file", {"case": cj})
    elif writes:
        # observed, not judged: an exclusive-create attempt ("x") or an append handle that writes nothing leaves the file as it
        # was, and "refuses to overwrite" is about the file (unchanged, checked above) and the error (raised, checked above)
        ctx.count("exists_ok_false_open_attempts_that_left_the_file_unchanged")
    # exists_ok=True (default) overwrites
    try:
        reg.save(target)
        ctx.count("overwrites_ok")
    except Exception as exc:
        ctx.violation("save-overwrite-raises:" + type(exc).__name__, {"case": cj})


def check_save_with_audio_keywords(ctx, rng, tmp, data, rate, width, channels):
    """save() takes **audio_parameters; a region knows its own parameters, so whatever the caller adds there the wav that is
    written carries the REGION's rate, width and channel count (a call that is refused writes nothing and is not judged)."""
    if not data:
        return
    reg = AudioRegion(data, rate, width, channels)
    other = {"sampling_rate": rate + 1000, "sr": 8000 if rate != 8000 else 16000, "sample_width": {1: 2, 2: 4, 4: 2}[width], "sw": {1: 2, 2: 1, 4: 1}[width],
             "channels": channels + 1, "ch": channels % 4 + 1}
    keys = rng.sample(sorted(other), rng.choice((1, 1, 2)))
    extra = {k: other[k] for k in keys}
    path = os.path.join(tmp, "kw.wav")
    case = {"op": "save-with-audio-keywords", "keywords": extra, "fmt": [rate, width, channels], "data": data.hex()}
    ctx.case(repr(case), True)
    ctx.count("saves_with_contradicting_audio_keywords")
    try:
        reg.save(path, **extra)
    except Exception:
        ctx.count("saves_with_contradicting_audio_keywords_refused")
        return
    try:
        got, r_, w_, c_ = wav_read(path)
    except Exception as exc:
        ctx.violation("saved-wav-unreadable:" + type(exc).__name__, {"case": case})
        return
    if (r_, w_, c_) != (rate, width, channels) or got != data:
        ctx.violation("saved-wav-differs-from-region", {"case": case, "file_fmt": [r_, w_, c_], "file_bytes": len(got)})


def check_load_slice(ctx, rng, tmp, data, rate, width, channels):
    bps = width * channels
    n = len(data) // bps
    d = n / rate
    skip = rng.choice((0, 0.0, d / 2, d, d + 0.5, rng.uniform(0, 1.3 * d + 1e-3), rng.randint(0, n + 2) / rate, (rng.randint(0, n) + 0.5) / rate, 1e-7))
    max_read = rng.choice((None, None, 0, d / 3, d, 2 * d + 1, rng.uniform(0, 1.3 * d + 1e-3), rng.randint(0, n + 2) / rate, (rng.randint(0, n) + 0.5) / rate))
    kind = rng.choice(("bytes", "raw", "wav", "raw_lazy", "wav_lazy"))
    kw = {}
    if kind == "bytes":
        x = data
        kw.update(sr=rate, sw=width, ch=channels)
    elif kind.startswith("raw"):
        x = os.path.join(tmp, "ls.raw")
        with open(x, "wb") as fp:
            fp.write(data)
        kw.update(sampling_rate=rate, sample_width=width, channels=channels)
    else:
        x = os.path.join(tmp, "ls.wav")
        wav_write(x, data, rate, width, channels)
    if kind.endswith("lazy"):
        kw["large_file"] = True
    case = {"op": "load-slice", "kind": kind, "skip": skip, "max_read": max_read, "fmt": [rate, width, channels], "data": data.hex()}
    ctx.count("load_slices")
    a_c = round_cands(skip, rate)
    try:
        reg = auditok.load(x, skip=skip, max_read=max_read, **kw) if rng.random() < 0.7 else auditok.load(x, skip, max_read, **kw)
    except Exception as exc:
        beyond = min(a_c) >= n or (max_read is not None and max(round_cands(max_read, rate)) == 0) or n == 0
        key = "load-raises-when-result-is-empty" if beyond else "load-raises"
        ctx.case(repr(case), True)
        ctx.violation(f"{key}:{type(exc).__name__}", {"case": case, "exception": repr(exc)[:200]})
        return
    got = bytes(reg)
    ok = False
    exp = None
    for a in sorted(a_c):
        for m in ([None] if max_read is None else sorted(round_cands(max_read, rate))):
            e = data[a * bps : (None if m is None else (a + m) * bps)]
            if exp is None:
                exp = e
            if got == e:
                ok = True
    ctx.case(repr(case), bool(exp))
    if not exp:
        ctx.count("load_slices_with_empty_result")
    if min(a_c) > n:
        ctx.count("load_slices_skip_beyond_end")
    if not ok:
        ctx.violation("load-skip-max_read-differs-from-slice", {"case": case, "got_samples": len(got) / bps, "expected_samples": len(exp) // bps})
    elif (reg.sampling_rate, reg.sample_width, reg.channels) != (rate, width, channels):
        ctx.violation("loaded-audio-parameters-differ", {"case": case})


def check_numpy(ctx, rng, data, rate, width, channels):
    reg = AudioRegion(data, rate, width, channels)
    case = {"op": "numpy", "fmt": [rate, width, channels], "data": data.hex()}
    ctx.case(repr(case), bool(data))
    ctx.count("numpy_exports")
    try:
        arr = reg.numpy()
    except Exception as exc:
        ctx.violation("numpy-raises:" + type(exc).__name__, {"case": case, "exception": repr(exc)[:200]})
        return
    chans = E.decode(data, width, channels)
    n = len(data) // (width * channels)
    if tuple(arr.shape) != (channels, n):
        ctx.violation("numpy-shape-wrong", {"case": case, "shape": list(arr.shape), "expected": [channels, n]})
        return
    for c in range(channels):
        for i in range(n):
            if arr[c][i] != chans[c][i]:
                ctx.violation("numpy-value-wrong", {"case": case, "channel": c, "sample": i, "got": float(arr[c][i]), "expected": chans[c][i]})
                return
    ctx.count("numpy_values_checked", channels * n)
    # a second export after the caller modified the first array in place (e.g. normalised it) must show the region's audio again
    if n:
        try:
            arr += 1
            arr *= 0.5
        except Exception:
            pass  # a read-only export is fine too
        again = reg.numpy()
        ctx.count("numpy_reexports_checked")
        if bytes(reg) != data:
            ctx.violation("numpy-export-lets-the-region-be-modified", {"case": case})
        elif any(again[c][i] != chans[c][i] for c in range(channels) for i in range(n)):
            ctx.violation("numpy-second-export-returns-stale-or-modified-values", {"case": case})


def check_overwrite_and_dir_placeholders(ctx, rng, tmp, data, rate, width, channels):
    # (a) writing over an existing, LONGER file replaces it entirely
    fmt = rng.choice(("raw", "wav", "raw"))
    path = os.path.join(tmp, f"over.{fmt}")
    longer = data + rng.randbytes((rng.randint(1, 50)) * width * channels)
    case = {"op": "overwrite-longer", "format": fmt, "fmt": [rate, width, channels], "old_len": len(longer), "new_len": len(data)}
    ctx.count("overwrites_of_longer_files")
    ctx.case(repr(case), True)
    try:
        to_file(longer, path, sr=rate, sw=width, ch=channels)
        if rng.random() < 0.5:
            to_file(data, path, sr=rate, sw=width, ch=channels)
        else:
            AudioRegion(data, rate, width, channels).save(path)
        got = wav_read(path)[0] if fmt == "wav" else open(path, "rb").read()
        if got != data:
            ctx.violation(f"overwritten-{fmt}-file-keeps-old-content", {"case": case, "got_len": len(got)})
    except Exception as exc:
        ctx.violation("write-raises:" + type(exc).__name__, {"case": case, "exception": repr(exc)[:200]})
    # (b) placeholders anywhere in the file name given, directories included
    start = rng.choice((0.0, 1.5, 2.25))
    reg = AudioRegion(data, rate, width, channels, start)
    template = os.path.join(tmp, "det_{start}-{end}", "audio_{duration:.3f}.wav")
    expected = template.format(start=reg.start, end=reg.end, duration=reg.duration)
    os.makedirs(os.path.dirname(expected), exist_ok=True)
    case = {"op": "save-template-with-directory-placeholders", "template": "det_{start}-{end}/audio_{duration:.3f}.wav", "start": start}
    ctx.count("directory_placeholder_saves")
    try:
        ret = reg.save(template)
        if ret != expected or not os.path.exists(expected):
            ctx.violation("save-name-differs-from-template", {"case": case, "returned": str(ret)[-60:], "expected": expected[-60:]})
    except Exception as exc:
        ctx.violation("save-raises:" + type(exc).__name__, {"case": case, "exception": repr(exc)[:200]})
    shutil.rmtree(os.path.dirname(expected), ignore_errors=True)


def check_large_skip(ctx, rng, tmp):
    for e in (20, rng.choice((22, 23))):
        _check_large_skip(ctx, rng, tmp, 2 ** e)


def _check_large_skip(ctx, rng, tmp, big):
    """millions of samples skipped (minutes of audio), several channels."""
    rate, width, channels = rng.choice((16000, 44100)), 1, rng.choice((2, 3))
    n = big + rng.randint(50, 4000)
    unit = bytes(range(1, 252)) * 8
    data = (unit * (n * channels // len(unit) + 1))[: n * channels]
    bps = width * channels
    ctx.count("load_slices_skip_of_2^%d_samples" % (big.bit_length() - 1))
    for skip_samples in (big + rng.randint(1, 40), big, big - 1, 2 ** 20 + rng.randint(1, 40)):
        skip = skip_samples / rate
        m = rng.choice((None, 10 / rate))
        a = round(skip * rate)
        kind = rng.choice(("bytes", "raw_lazy"))
        case = {"op": "load-slice-large", "kind": kind, "skip_samples": skip_samples, "max_read": m, "fmt": [rate, width, channels], "nsamples": n}
        ctx.count("load_slices_large_skip")
        ctx.case(repr(case), True)
        try:
            if kind == "bytes":
                reg = auditok.load(data, skip=skip, max_read=m, sr=rate, sw=width, ch=channels)
            else:
                p = os.path.join(tmp, "big.raw")
                with open(p, "wb") as fp:
                    fp.write(data)
                reg = auditok.load(p, skip=skip, max_read=m, sr=rate, sw=width, ch=channels, large_file=True)
        except Exception as exc:
            ctx.violation("load-raises:" + type(exc).__name__, {"case": case, "exception": repr(exc)[:200]})
            continue
        exp = data[a * bps : (None if m is None else (a + round(m * rate)) * bps)]
        if bytes(reg) != exp:
            ctx.violation("load-skip-max_read-differs-from-slice", {"case": case, "got_samples": len(bytes(reg)) // bps, "expected_samples": len(exp) // bps})


def check_big_containers(ctx, rng, tmp):
    """typed containers of tens of MiB (a minute of CD audio is 10 MiB), written raw and wav."""
    import array

    import numpy as np

    width = rng.choice((2, 2, 4))
    nbytes = 2 ** rng.choice((24, 24, 25)) + 4 * rng.randint(1, 5000)
    unit = bytes(range(1, 252)) * 8
    data = (unit * (nbytes // len(unit) + 1))[:nbytes]
    code = {2: "h", 4: "i"}[width]
    for cname in rng.sample(["numpy", "array", "memoryview_of_array", "bytes", "bytearray"], 3):
        cont = {"numpy": lambda: np.frombuffer(data, dtype={2: np.int16, 4: np.int32}[width]), "array": lambda: array.array(code, data),
                "memoryview_of_array": lambda: memoryview(array.array(code, data)), "bytes": lambda: data, "bytearray": lambda: bytearray(data)}[cname]()
        fmt = rng.choice(("raw", "raw", "wav"))
        path = os.path.join(tmp, f"bigcont.{fmt}")
        case = {"op": "write-big-container", "container": cname, "format": fmt, "fmt": [16000, width, 1], "nbytes": nbytes}
        ctx.case(repr(case), True)
        ctx.count("writes_of_big_containers")
        try:
            to_file(cont, path, sr=16000, sw=width, ch=1)
            got = wav_read(path)[0] if fmt == "wav" else open(path, "rb").read()
        except Exception as exc:
            ctx.violation(f"write-from-{cname}-raises:{type(exc).__name__}", {"case": case, "exception": repr(exc)[:200]})
            continue
        finally:
            if os.path.exists(path):
                os.unlink(path)
        if got != data:
            ctx.violation(f"written-{fmt}-bytes-differ", {"case": case, "got_len": len(got), "expected_len": len(data)})


def check_write_containers(ctx, rng, tmp, data, rate, width, channels):
    """to_file() documents bytes, bytearray, memoryview, array and numpy.ndarray as data."""
    import array

    import numpy as np

    if not data:
        return
    code = {1: "b", 2: "h", 4: "i"}[width]
    conts = {"bytearray": bytearray(data), "memoryview": memoryview(data), "array": array.array(code, data),
             "numpy": np.frombuffer(data, dtype={1: np.int8, 2: np.int16, 4: np.int32}[width])}
    conts["memoryview_of_array"] = memoryview(conts["array"])
    cname = rng.choice(sorted(conts))
    fmt = rng.choice(("wav", "raw"))
    path = os.path.join(tmp, f"cont.{fmt}")
    case = {"op": "write-container", "container": cname, "format": fmt, "fmt": [rate, width, channels], "data": data.hex()}
    ctx.case(repr(case), True)
    ctx.count("writes_from_other_containers")
    try:
        to_file(conts[cname], path, sr=rate, sw=width, ch=channels)
        got = wav_read(path)[0] if fmt == "wav" else open(path, "rb").read()
    except Exception as exc:
        ctx.violation(f"write-from-{cname}-raises:{type(exc).__name__}", {"case": case, "exception": repr(exc)[:200]})
        return
    if got != data:
        ctx.violation(f"written-{fmt}-bytes-differ", {"case": case, "got_len": len(got), "expected_len": len(data)})


def run_shard(ctx, upto=None):
    _install_hook()
    conf = TIERS[ctx.tier]
    rng = ctx.rng("cases")
    tmp = tempfile.mkdtemp(prefix="vf-c18-")
    try:
        if (upto is None and (ctx.shard == 2 or (ctx.tier == "thorough" and ctx.shard < 8))) or upto == -1:
            ctx.replay_info = {"shard": ctx.shard, "nshards": ctx.nshards, "seed": ctx.seed, "i": -1}
            check_large_skip(ctx, ctx.rng("large"), tmp)
        if (upto is None and (ctx.shard == 3 or (ctx.tier == "thorough" and ctx.shard >= 8))) or upto == -2:
            ctx.replay_info = {"shard": ctx.shard, "nshards": ctx.nshards, "seed": ctx.seed, "i": -2}
            check_big_containers(ctx, ctx.rng("bigcont"), tmp)
        for i in range(conf["random"] if upto is None else upto + 1):
            ctx.replay_info = {"shard": ctx.shard, "nshards": ctx.nshards, "seed": ctx.seed, "i": i}
            data, rate, width, channels = gen_audio(rng)
            if i % 7 == 0:  # extremes for the numpy / byte-order check
                lim = 2 ** (8 * width - 1)
                vals = [max(-lim, min(lim - 1, rng.choice((-lim, lim - 1, 0, -1, 1, 256, -256, 255, 127, -128)))) for _ in range(channels * rng.randint(1, 6))]
                data = struct.pack("<%d%s" % (len(vals), E.FMT[width]), *vals)
            for fn in (check_roundtrip, check_read, check_template_and_exists, check_load_slice, check_load_slice, check_write_containers,
                       check_overwrite_and_dir_placeholders, check_save_with_audio_keywords):
                try:
                    fn(ctx, rng, tmp, data, rate, width, channels)
                except Exception as exc:
                    ctx.violation(f"harness-exception-in-{fn.__name__}:{type(exc).__name__}", {"exception": repr(exc)[:300]})
            check_numpy(ctx, rng, data, rate, width, channels)
            for f in os.listdir(tmp):
                p_ = os.path.join(tmp, f)
                shutil.rmtree(p_) if os.path.isdir(p_) else os.unlink(p_)
            if (i & 7) == 0 and ctx.out_of_time():
                break
    finally:
        shutil.rmtree(tmp, ignore_errors=True)


def replay(ctx, case):
    import sys

    from ..ctx import replay_by_index

    if not replay_by_index(ctx, sys.modules[__name__], case):
        ctx.note("witness carries no replay index; re-running the seeded workload of shard 0")
        run_shard(ctx)


def inconclusive(merged, tier):
    c = merged["counters"]
    need = ["writes_to_file", "writes_save", "writes_wav", "writes_raw", "reads_load", "reads_from_file", "reads_lazy", "reads_eager",
            "roundtrips", "template_saves", "exists_ok_false_checks", "overwrites_ok", "load_slices", "load_slices_with_empty_result",
            "load_slices_skip_beyond_end", "numpy_exports", "numpy_values_checked", "numpy_reexports_checked", "load_slices_large_skip", "load_slices_skip_of_2^20_samples", "writes_of_big_containers", "writes_from_other_containers", "overwrites_of_longer_files", "directory_placeholder_saves"]
    return [f"monitor never observed {k}" for k in need if c.get(k, 0) == 0]
