"""C17 - region algebra: concatenate, repeat, divide, join are byte-exact and safe."""

import math
from fractions import Fraction

import auditok
from auditok import AudioRegion, make_silence
from auditok.exceptions import AudioParameterError

ID = "C17"
LEVEL = "exploration"
TIERS = {"quick": {"shards": 16, "budget_s": 120, "random": 3000},
         "thorough": {"shards": 16, "budget_s": 900, "random": 150000}}
RULE = ("Random operand trees of + / sum / * n / n * / join / make_silence and division by every n in 1..len+3 on real "
        "AudioRegion objects (widths 1/2/4, 1-4 channels, 0..30 samples).  Oracle REGION (bytes-level list operations): "
        "result bytes == concatenation / repetition / interleaving; make_silence(d) == round(d*rate) zero samples; r/n -> "
        "min(n,len) contiguous pieces, sizes differ by <=1, concatenation == r; mismatched rate/width/channels -> "
        "AudioParameterError and no result; non-whole-sample data rejected at construction; attribute assignment raises and "
        "leaves the value unchanged; operands byte-identical afterwards; == iff bytes and the three parameters agree.  "
        "Also: joins of 255..4096 operands and of one-at-a-time temporaries, regions of 700-5000 samples divided by 745..len+1.  "
        "Non-trivial = operation on >=1 non-empty operand; distinct = distinct (operation, operands).")
ASSUMPTIONS = [
    "division of an empty region is outside the statement and not generated",
    "round(d*rate) is Python's round() of the product (ties to even), as the statement spells it",
    "held means: held on the executions listed in coverage",
]


def mk(rng, fmt, n=None):
    rate, width, channels = fmt
    if n is None:
        n = rng.choice((0, 1, 2, 3, rng.randint(0, 30)))
    data = rng.randbytes(n * width * channels)
    start = rng.choice((None, None, 0.0, 1.5))
    return AudioRegion(data, rate, width, channels, start) if start is not None else AudioRegion(data, rate, width, channels)


def snap(r):
    # everything a user can read off a region: the audio, its parameters, where it starts and ends, the (deprecated but public) meta
    m = getattr(r, "meta", None)
    return (bytes(r.data), r.sampling_rate, r.sample_width, r.channels, r.start, getattr(r, "end", None),
            tuple(sorted(dict.items(m))) if isinstance(m, dict) else None)


def fmt_of(r):
    return (r.sampling_rate, r.sample_width, r.channels)


def rand_fmt(rng):
    return (rng.choice((8, 10, 100, 16000)), rng.choice((1, 2, 4)), rng.choice((1, 2, 3, 4)))


def other_fmt(rng, fmt):
    rate, width, channels = fmt
    which = rng.randrange(5)
    if which == 3:
        # compensating change: same bytes per multi-channel sample, different width and channel count
        for w2, c2 in ((1, 2), (2, 1), (1, 4), (4, 1), (2, 2), (2, 4), (4, 2)):
            if (w2, c2) != (width, channels) and w2 * c2 == width * channels:
                return (rate, w2, c2), "width-and-channels"
        which = 1
    if which == 4:
        # same byte rate, different rate and width
        w2 = {1: 2, 2: 1, 4: 2}[width]
        return (rate * width // w2 if rate * width % w2 == 0 else rate + 1, w2, channels), "rate-and-width"
    if which == 0:
        return (rate + rng.choice((1, 10)), width, channels), "rate"
    if which == 1:
        return (rate, {1: 2, 2: 4, 4: 1}[width], channels), "width"
    return (rate, width, channels % 4 + 1), "channels"


def desc(r):
    return {"fmt": list(fmt_of(r)), "data": bytes(r).hex(), "start": r.start}


def check_same(ctx, op, operands, before):
    for o, b in zip(operands, before):
        if snap(o) != b:
            ctx.violation(f"{op}-alters-its-operand", {"case": {"op": op, "operands": [list(x[1:4]) + [x[0].hex()] for x in before]}})
            return False
    return True


def expect(ctx, op, res, exp_bytes, fmt, case):
    if not isinstance(res, AudioRegion):
        ctx.violation(f"{op}-result-not-a-region", {"case": case, "type": type(res).__name__})
        return
    if fmt_of(res) != tuple(fmt):
        ctx.violation(f"{op}-changes-audio-parameters", {"case": case, "got": list(fmt_of(res))})
        return
    if bytes(res) != exp_bytes:
        ctx.violation(f"{op}-bytes-wrong", {"case": case, "got_len": len(bytes(res)), "expected_len": len(exp_bytes)})


def op_add(ctx, rng):
    fmt = rand_fmt(rng)
    a, b = mk(rng, fmt), mk(rng, fmt)
    before = [snap(a), snap(b)]
    case = {"op": "add", "a": desc(a), "b": desc(b)}
    ctx.case(repr(case), bool(a.data or b.data))
    ctx.count("op_add")
    res = a + b
    expect(ctx, "add", res, before[0][0] + before[1][0], fmt, case)
    check_same(ctx, "add", [a, b], before)
    # equality is decided by bytes + parameters only
    if (res == AudioRegion(before[0][0] + before[1][0], *fmt)) is not True:
        ctx.violation("eq-false-for-equal-regions", {"case": case})


def op_sum(ctx, rng):
    fmt = rand_fmt(rng)
    regs = [mk(rng, fmt) for _ in range(rng.randint(1, 5))]
    before = [snap(r) for r in regs]
    case = {"op": "sum", "operands": [desc(r) for r in regs]}
    ctx.case(repr(case), any(r.data for r in regs))
    ctx.count("op_sum")
    res = sum(regs)
    expect(ctx, "sum", res, b"".join(b[0] for b in before), fmt, case)
    check_same(ctx, "sum", regs, before)


def op_mul(ctx, rng):
    fmt = rand_fmt(rng)
    a = mk(rng, fmt)
    n = rng.choice((1, 1, 2, 3, 7, 0))
    before = [snap(a)]
    case = {"op": "mul", "a": desc(a), "n": n, "side": rng.choice(("left", "right"))}
    ctx.case(repr(case), bool(a.data) and n > 0)
    ctx.count("op_mul")
    res = a * n if case["side"] == "left" else n * a
    expect(ctx, "mul", res, before[0][0] * n, fmt, case)
    check_same(ctx, "mul", [a], before)


def op_join(ctx, rng):
    fmt = rand_fmt(rng)
    sep = mk(rng, fmt)
    regs = [mk(rng, fmt) for _ in range(rng.randint(0, 5))]
    before = [snap(sep)] + [snap(r) for r in regs]
    case = {"op": "join", "sep": desc(sep), "operands": [desc(r) for r in regs]}
    ctx.case(repr(case), any(r.data for r in regs) or (len(regs) > 1 and bool(sep.data)))
    ctx.count("op_join")
    container = rng.choice(("list", "tuple", "generator"))
    arg = regs if container == "list" else (tuple(regs) if container == "tuple" else (r for r in regs))
    res = sep.join(arg)
    expect(ctx, "join", res, before[0][0].join(b[0] for b in before[1:]), fmt, case)
    check_same(ctx, "join", [sep] + regs, before)


def op_div(ctx, rng, big=False):
    fmt = rand_fmt(rng)
    a = mk(rng, fmt, n=(rng.choice((700, 1500, 5000)) + rng.randint(0, 40)) if big else rng.randint(1, 30))
    before = [snap(a)]
    bps = fmt[1] * fmt[2]
    ln = len(before[0][0]) // bps
    if big:
        # one second of audio cut into a thousand pieces: many pieces of a long region (not only every n of a tiny one)
        ctx.count("op_div_into_hundreds_of_pieces")
        ns = [745, 999, 1000, 1024, ln - 1, ln, ln + 1, rng.randint(300, ln)]
    else:
        ns = list(range(1, ln + 4)) + [10 ** 6, 2 ** 64, 2 ** 64 + 1, 10 ** 30]
    for n in ns:
        case = {"op": "div", "a": desc(a), "n": n}
        ctx.case(repr(case), True)
        ctx.count("op_div")
        if n > ln:
            ctx.count("op_div_n_greater_than_len")
        try:
            pieces = a / n
        except Exception as exc:
            ctx.violation("div-raises:" + type(exc).__name__, {"case": case, "exception": repr(exc)[:200]})
            return
        if not isinstance(pieces, (list, tuple)) or not all(isinstance(p, AudioRegion) for p in pieces):
            ctx.violation("div-result-not-a-list-of-regions", {"case": case})
            return
        sizes = [len(bytes(p)) // bps for p in pieces]
        if any(len(bytes(p)) % bps for p in pieces):
            ctx.violation("div-piece-not-whole-samples", {"case": case, "sizes_bytes": [len(bytes(p)) for p in pieces]})
            return
        if len(pieces) != min(n, ln):
            ctx.violation("div-wrong-number-of-pieces", {"case": case, "pieces": len(pieces), "expected": min(n, ln), "sizes": sizes})
            return
        if b"".join(bytes(p) for p in pieces) != before[0][0]:
            ctx.violation("div-pieces-do-not-sum-to-original", {"case": case, "sizes": sizes})
            return
        if max(sizes) - min(sizes) > 1 or min(sizes) < 1:
            ctx.violation("div-piece-sizes-differ-by-more-than-one", {"case": case, "sizes": sizes})
            return
        if any(fmt_of(p) != tuple(fmt) for p in pieces):
            ctx.violation("div-changes-audio-parameters", {"case": case})
            return
        if not check_same(ctx, "div", [a], before):
            return
        if n <= ln + 3:
            # the caller may do what it likes with the list it got; a later division is unaffected
            pieces.reverse()
            pieces.clear()
            again = a / n
            ctx.count("op_div_repeated_after_caller_mutated_result")
            if again is pieces or [len(bytes(p)) // bps for p in again] != sizes:
                ctx.violation("div-result-shared-between-calls", {"case": case, "first_sizes": sizes, "second_sizes": [len(bytes(p)) // bps for p in again]})
                return


def op_join_many(ctx, rng):
    """joins of hundreds to thousands of regions (counts at and around powers of two: batching boundaries), as lists and
    as one-shot generators"""
    fmt = rand_fmt(rng)
    n = rng.choice((255, 256, 257, 511, 512, 1000, 1023, 1024, 1025, 2047, 2048, 2049, 3072, 4096))
    sep = mk(rng, fmt)
    pool = [mk(rng, fmt) for _ in range(4)]
    picks = [rng.randrange(4) for _ in range(n)]
    case = {"op": "join-many", "count": n, "sep": desc(sep), "pool": [desc(r) for r in pool]}
    ctx.case(repr(("join-many", n, case["sep"])), True)
    ctx.count("op_join_many")
    ctx.maxi("regions_in_one_join", n)
    arg = [pool[k] for k in picks] if rng.random() < 0.5 else (pool[k] for k in picks)
    res = sep.join(arg)
    expect(ctx, "join", res, bytes(sep).join(bytes(pool[k]) for k in picks), fmt, case)


def op_join_temporaries(ctx, rng):
    """the regions to join are temporaries produced one at a time (nobody else holds them); somewhere among them one has a
    different rate / width / channel count: the join must refuse, however many were fine before it and whatever memory the
    earlier ones have given back in the meantime"""
    import gc

    fmt = rand_fmt(rng)
    fmt2, which = other_fmt(rng, fmt)
    n = rng.choice((50, 300, 700))
    bad_at = rng.randrange(n // 2, n)
    sep = mk(rng, fmt)
    case = {"op": "join-temporaries", "count": n, "bad_at": bad_at, "differs_in": which, "sep": desc(sep)}
    ctx.case(repr(case), True)
    ctx.count("op_join_temporaries")

    def items():
        for i in range(n):
            if i % 97 == 96:
                gc.collect()
            yield mk(rng, fmt2 if i == bad_at else fmt)

    try:
        res = sep.join(items())
        ctx.violation(f"mismatched-{which}-combined-without-error", {"case": case, "result": repr(res)[:100]})
    except AudioParameterError:
        ctx.count("parameter_errors_observed")
    except Exception as exc:
        ctx.violation(f"mismatched-{which}-raises-{type(exc).__name__}", {"case": case, "exception": repr(exc)[:200]})


def op_mismatch(ctx, rng):
    fmt = rand_fmt(rng)
    fmt2, which = other_fmt(rng, fmt)
    a, b = mk(rng, fmt), mk(rng, fmt2)
    before = [snap(a), snap(b)]
    op = rng.choice(("add", "radd-sum", "join-sep", "join-item"))
    case = {"op": "mismatch-" + op, "differs_in": which, "a": desc(a), "b": desc(b)}
    ctx.case(repr(case), True)
    ctx.count("op_mismatch")
    try:
        if op == "add":
            res = a + b
        elif op == "radd-sum":
            res = sum([a, b])
        elif op == "join-sep":
            res = a.join([b, b])
        else:
            res = a.join([mk(rng, fmt), b])
        ctx.violation(f"mismatched-{which}-combined-without-error", {"case": case, "result": repr(res)[:100]})
    except AudioParameterError:
        ctx.count("parameter_errors_observed")
    except Exception as exc:
        ctx.violation(f"mismatched-{which}-raises-{type(exc).__name__}", {"case": case, "exception": repr(exc)[:200]})
    check_same(ctx, "mismatch", [a, b], before)
    if (a == b) is not False or (a != b) is not True:
        ctx.violation(f"regions-differing-in-{which}-compare-equal", {"case": case})


def _crc32_colliding_pair():
    """two different 8-byte strings with the same CRC-32 (birthday search, ~80k tries): equality decided through a checksum
    instead of the bytes would call them equal."""
    import random
    import zlib

    r = random.Random(20260927)
    seen = {}
    while True:
        b = r.randbytes(8)
        c = zlib.crc32(b)
        if c in seen and seen[c] != b:
            return seen[c], b
        seen[c] = b


_COLLIDING = []


def op_optimised_interpreter(ctx):
    """the same constructor check in an interpreter started with -O (assert statements and __debug__ blocks are gone there)."""
    import os
    import subprocess
    import sys

    code = ("import sys; from auditok import AudioRegion\n"
            "from auditok.exceptions import AudioParameterError\n"
            "bad = 0\n"
            "for args in ((b'abc', 8000, 2, 1), (b'abcde', 8000, 2, 2), (b'a', 10, 4, 1)):\n"
            "    for kw in ({}, {'start': 0.0}):\n"
            "        try:\n"
            "            AudioRegion(*args, **kw); bad += 1\n"
            "        except AudioParameterError:\n"
            "            pass\n"
            "a = AudioRegion(b'abcd', 8000, 2, 1)\n"
            "try:\n"
            "    a.data = b''; bad += 100\n"
            "except Exception:\n"
            "    pass\n"
            "sys.exit(bad)\n")
    env = dict(os.environ, PYTHONPATH=os.environ.get("VERIF_REPO", "/repo"), PYTHONDONTWRITEBYTECODE="1")
    for flags in (["-O"], ["-OO"]):
        ctx.count("optimised_interpreter_runs")
        ctx.evaluations += 1
        try:
            r = subprocess.run([sys.executable] + flags + ["-c", code], env=env, capture_output=True, timeout=120)
        except subprocess.TimeoutExpired:
            ctx.count("inconclusive_runs")
            continue
        if r.returncode != 0:
            ctx.violation("construction-or-immutability-check-gone-under-python" + "".join(flags), {"case": {"op": "python " + " ".join(flags)}, "exit": r.returncode,
                                                                                             "stderr": r.stderr.decode("utf-8", "replace")[-300:]})


class _SubRegion(AudioRegion):
    """a trivial user subclass: still a region with the same bytes and parameters"""


def op_eq(ctx, rng):
    fmt = rand_fmt(rng)
    a = mk(rng, fmt)
    same = AudioRegion(bytes(a.data), *fmt, rng.choice((None, 3.25)))
    sub = _SubRegion(bytes(a.data), *fmt)
    if (a == sub) is not True or (sub == a) is not True or (sub != a) is not False:
        ctx.violation("eq-false-for-equal-regions", {"case": {"op": "eq-subclass", "a": desc(a)}})
    elif a.data and ((sub * 1 == sub) is not True or (sum(sub / 2) == sub) is not True):
        ctx.violation("eq-false-for-equal-regions", {"case": {"op": "eq-subclass-algebra", "a": desc(a)}})
    ctx.case(repr(("eq", desc(a))), bool(a.data))
    ctx.count("op_eq")
    if (a == same) is not True or (a != same) is not False:
        ctx.violation("eq-false-for-equal-regions", {"case": {"op": "eq", "a": desc(a), "other_start": same.start}})
    if a.data:
        d = bytearray(a.data)
        d[rng.randrange(len(d))] ^= 0x40
        other = AudioRegion(bytes(d), *fmt)
        if (a == other) is not False:
            ctx.violation("eq-true-for-different-bytes", {"case": {"op": "eq", "a": desc(a)}})
    if not _COLLIDING:
        _COLLIDING.extend(_crc32_colliding_pair())
    x, y = _COLLIDING
    ctx.count("checksum_colliding_pairs_compared")
    for fmt_ in ((8000, 1, 1), (16000, 2, 2), (10, 4, 1)):
        rx, ry = AudioRegion(x, *fmt_), AudioRegion(y, *fmt_)
        if (rx == ry) is not False or (rx * 3 == ry * 3) is not False or (sum(rx / 2) == sum(ry / 2)) is not False:
            ctx.violation("eq-true-for-different-bytes", {"case": {"op": "eq-crc32-colliding", "x": x.hex(), "y": y.hex(), "fmt": list(fmt_)}})
            break
    if (a == bytes(a.data)) is True or (a == 0) is True:
        ctx.violation("eq-true-for-non-region", {"case": {"op": "eq", "a": desc(a)}})


def op_silence(ctx, rng):
    rate, width, channels = rand_fmt(rng)
    d = rng.choice((0, 0.0, 1 / rate, 0.5 / rate, 1.5 / rate, 2.5 / rate, rng.uniform(0, 30 / rate), rng.randint(0, 30) / rate, 0.1, 0.25))
    case = {"op": "make_silence", "duration": d, "fmt": [rate, width, channels]}
    ctx.count("op_make_silence")
    res = make_silence(d, rate, width, channels)
    cands = {round(d * rate)}  # round() as the statement spells it: Python's, ties to even
    n = len(bytes(res)) // (width * channels)
    ctx.case(repr(case), n > 0)
    if fmt_of(res) != (rate, width, channels):
        ctx.violation("make_silence-audio-parameters-wrong", {"case": case})
    elif any(bytes(res)):
        ctx.violation("make_silence-not-all-zero", {"case": case})
    elif n not in cands or len(bytes(res)) % (width * channels):
        ctx.violation("make_silence-wrong-length", {"case": case, "samples": n, "admissible": sorted(cands)})


def op_construct(ctx, rng):
    rate, width, channels = rand_fmt(rng)
    bps = width * channels
    if bps == 1:
        return
    n = rng.randint(0, 10) * bps + rng.randint(1, bps - 1)
    case = {"op": "construct-partial-sample", "nbytes": n, "fmt": [rate, width, channels]}
    ctx.case(repr(case), True)
    ctx.count("op_construct_partial")
    start = rng.choice((None, 0, 0.0, 1.5))
    case["start"] = start
    try:
        if start is None:
            AudioRegion(bytes(n), rate, width, channels)
        elif rng.random() < 0.5:
            AudioRegion(bytes(n), rate, width, channels, start)
        else:
            AudioRegion(bytes(n), rate, width, channels, start=start)
        ctx.violation("partial-sample-data-accepted-at-construction", {"case": case})
    except AudioParameterError:
        pass
    except Exception as exc:
        ctx.violation("partial-sample-data-raises-" + type(exc).__name__, {"case": case})


def op_frozen(ctx, rng):
    fmt = rand_fmt(rng)
    a = mk(rng, fmt, n=rng.randint(1, 5))
    before = snap(a)
    ctx.case(repr(("frozen", desc(a))), True)
    for attr, val in (("data", b""), ("sampling_rate", 1), ("sample_width", 1), ("channels", 1), ("start", 9.0)):
        ctx.count("op_assignment")
        try:
            setattr(a, attr, val)
            ctx.violation("attribute-assignment-accepted:" + attr, {"case": {"op": "assign", "attr": attr}})
        except Exception:
            pass
        try:
            delattr(a, attr)
            ctx.violation("attribute-deletion-accepted:" + attr, {"case": {"op": "delete", "attr": attr}})
        except Exception:
            pass
    if snap(a) != before:
        ctx.violation("region-mutated-by-failed-assignment", {"case": {"op": "assign"}})


def op_tree(ctx, rng):
    """nested expression, compared with the same expression on bytes."""
    fmt = rand_fmt(rng)
    leaves = [mk(rng, fmt) for _ in range(rng.randint(2, 5))]
    before = [snap(r) for r in leaves]

    def build(depth):
        if depth == 0 or rng.random() < 0.3:
            i = rng.randrange(len(leaves))
            return leaves[i], before[i][0], f"L{i}"
        r = rng.random()
        if r < 0.4:
            x, xb, xs = build(depth - 1)
            y, yb, ys = build(depth - 1)
            return x + y, xb + yb, f"({xs}+{ys})"
        if r < 0.6:
            x, xb, xs = build(depth - 1)
            n = rng.randint(0, 3)
            return x * n, xb * n, f"({xs}*{n})"
        if r < 0.8:
            s, sb, ss = build(depth - 1)
            items = [build(depth - 1) for _ in range(rng.randint(0, 3))]
            return s.join([i[0] for i in items]), sb.join(i[1] for i in items), f"{ss}.join([{','.join(i[2] for i in items)}])"
        x, xb, xs = build(depth - 1)
        if len(x) == 0:
            return x, xb, xs
        n = rng.randint(1, len(x) + 2)
        parts = x / n
        return sum(parts), xb, f"sum({xs}/{n})"

    res, exp, text = build(3)
    case = {"op": "tree", "expr": text, "leaves": [desc(r) for r in leaves]}
    ctx.case(repr(case), bool(exp))
    ctx.count("op_tree")
    expect(ctx, "tree", res, exp, fmt, case)
    check_same(ctx, "tree", leaves, before)
    if exp and ctx.want_sample():
        ctx.sample({"expr": text, "fmt": list(fmt), "leaf_sizes": [len(b[0]) for b in before], "result_bytes": len(exp)})


OPS = [op_add, op_sum, op_mul, op_join, op_div, op_mismatch, op_eq, op_silence, op_construct, op_frozen, op_tree, op_tree]


_CHILD = """
import pickle, random, sys
from auditok import AudioRegion
rng = random.Random(int(sys.argv[1]))
out = []
for _ in range(40):
    fmt = (rng.choice((8, 10, 100, 16000)), rng.choice((1, 2, 4)), rng.choice((1, 2, 3)))
    r = AudioRegion(rng.randbytes(rng.randint(0, 20) * fmt[1] * fmt[2]), *fmt)
    try:
        hash(r), {r: 1}, {r}
    except TypeError:
        pass
    out.append(r)
sys.stdout.buffer.write(pickle.dumps(out))
"""


def op_eq_across_processes(ctx):
    """regions that were hashed (used in a set / as a dict key) in another interpreter, with another string-hash seed, and came
    over as a pickle: equal to a local region iff bytes and parameters agree"""
    import os
    import pickle
    import random
    import subprocess
    import sys

    seed = ctx.rng("xproc").getrandbits(30)
    env = dict(os.environ, PYTHONHASHSEED=str(1 + seed % 4000000))
    try:
        r = subprocess.run([sys.executable, "-c", _CHILD, str(seed)], env=env, capture_output=True, timeout=120)
        theirs = pickle.loads(r.stdout) if r.returncode == 0 else None
    except Exception:
        theirs = None
    if not theirs:
        ctx.count("regions_could_not_be_sent_over_as_pickles")  # no statement says that regions can be pickled
        return
    rng = random.Random(seed)
    for k, t in enumerate(theirs):
        fmt = (rng.choice((8, 10, 100, 16000)), rng.choice((1, 2, 4)), rng.choice((1, 2, 3)))
        data = rng.randbytes(rng.randint(0, 20) * fmt[1] * fmt[2])
        mine = AudioRegion(data, *fmt)
        try:
            hash(mine), {mine}
            hash(t)
        except TypeError:
            pass
        ctx.count("regions_compared_with_regions_hashed_in_another_process")
        ctx.case(("eq-xproc", seed, k), bool(data))
        case = {"op": "eq-across-processes", "child_seed": seed, "index": k, "fmt": list(fmt), "data": data.hex()}
        if bytes(t) != data or fmt_of(t) != fmt:
            ctx.violation("pickled-region-differs-from-the-region-that-was-pickled", {"case": case})
            return
        if (t == mine) is not True or (mine == t) is not True or (t != mine) is not False:
            ctx.violation("eq-false-for-equal-regions", {"case": case, "detail": "one of the two was hashed in another process (other hash seed) and unpickled here"})
            return
        if data:
            d = bytearray(data)
            d[0] ^= 1
            if (t == AudioRegion(bytes(d), *fmt)) is not False:
                ctx.violation("eq-true-for-different-bytes", {"case": case})
                return


def run_shard(ctx, upto=None):
    conf = TIERS[ctx.tier]
    if upto is None and ctx.shard == 0:
        op_optimised_interpreter(ctx)
    if upto is None and (ctx.shard % 4 == 2):
        ctx.replay_info = None
        op_eq_across_processes(ctx)
    if upto is None and ctx.shard == ctx.nshards - 1 and not ctx.replay:
        # the repository's own 579 tests as one more workload, with the passive region-algebra monitor riding on every call they make
        from .. import repotests

        repotests.run(ctx, "region-algebra")

    rng = ctx.rng("ops")
    for i in range(conf["random"] if upto is None else upto + 1):
        op = OPS[i % len(OPS)]
        if i % 40 == 31:
            op = lambda c_, r_: op_div(c_, r_, big=True)  # noqa: E731
            op.__name__ = "op_div_big"
        if i % 40 == 7:
            op = op_join_many
        elif i % 40 == 23:
            op = op_join_temporaries
        ctx.replay_info = {"shard": ctx.shard, "nshards": ctx.nshards, "seed": ctx.seed, "i": i}
        try:
            op(ctx, rng)
        except Exception as exc:
            ctx.violation(f"exception-in-{op.__name__}:{type(exc).__name__}", {"case": {"op": op.__name__, "i": i}, "exception": repr(exc)[:300]})
        if (i & 63) == 0 and ctx.out_of_time():
            break


def replay(ctx, case):
    import sys

    from ..ctx import replay_by_index

    if not replay_by_index(ctx, sys.modules[__name__], case):
        ctx.note("witness carries no replay index; re-running the seeded workload of shard 0")
        run_shard(ctx)


def inconclusive(merged, tier):
    _xp = merged["counters"]
    if not (_xp.get("regions_compared_with_regions_hashed_in_another_process") or _xp.get("regions_could_not_be_sent_over_as_pickles")):
        return ["monitor never observed regions_compared_with_regions_hashed_in_another_process"]
    c = merged["counters"]
    need = ["op_add", "op_sum", "op_mul", "op_join", "op_join_many", "op_join_temporaries", "op_div_into_hundreds_of_pieces", "op_div", "op_div_n_greater_than_len", "op_mismatch", "parameter_errors_observed",
            "op_eq", "op_make_silence", "op_construct_partial", "op_assignment", "op_tree", "optimised_interpreter_runs", "checksum_colliding_pairs_compared", "op_div_repeated_after_caller_mutated_result", "repo_tests_region_equalities_checked"]
    return [f"monitor never observed {k}" for k in need if c.get(k, 0) == 0]
