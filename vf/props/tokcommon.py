"""Workload shared by C01-C04 (and reused by C08/C20): bounded-exhaustive
validity strings x all small parameter tuples, explicit recipes, structured
random long streams; every frame type / validator kind / delivery mode."""

from .. import tok
from ..gen import validity as G

TIERS = {
    # L: exhaustive string length for init_min<=1 tuples; Li: for init-phase tuples
    "quick": {"shards": 16, "budget_s": 120, "L": 9, "Li": 7, "max_len_init": 4, "random": 2500, "max_frames": 300},
    "thorough": {"shards": 16, "budget_s": 900, "L": 12, "Li": 10, "max_len_init": 5, "random": 120000, "max_frames": 2000},
}


def iter_cases(ctx, conf, init_variants=True, want_random=True, with_reuse=True, with_faults=True, validator_faults=False):
    """Yield (v, params, kind, delivery, origin)."""
    nk, nd = len(tok.KIND_NAMES), len(tok.DELIVERY)
    c = 0
    plain = G.param_tuples(4, init=False)
    for ti, params in enumerate(plain):
        if not ctx.mine(ti):
            continue
        for s in range(G.count_upto(conf["L"])):
            c += 1
            yield G.nth_string(s), params, tok.KIND_NAMES[c % nk], tok.DELIVERY[c % nd], "exhaustive"
        if ctx.out_of_time():
            return
    ctx.count("exhaustive_plain_tuples_done", sum(1 for ti in range(len(plain)) if ctx.mine(ti)))
    if init_variants:
        initp = G.param_tuples(conf["max_len_init"], init=True)
        for ti, params in enumerate(initp):
            if not ctx.mine(ti):
                continue
            for s in range(G.count_upto(conf["Li"])):
                c += 1
                yield G.nth_string(s), params, tok.KIND_NAMES[c % nk], tok.DELIVERY[c % nd], "exhaustive_init"
            if ctx.out_of_time():
                return
    # tuples outside the usual grid that the REAL constructor accepts (negative silence / init values, and whatever a
    # changed constructor lets through): every token is still bound by the properties
    import itertools

    from auditok.core import StreamTokenizer

    oc = 0
    for tup in itertools.product((0, 1, 2), (1, 2, 3), (-2, -1, 0, 1), (-1, 0, 1, 2), (-1, 0, 1), G.MODES):
        oc += 1
        if not ctx.mine(oc):
            continue
        min_len, max_len, max_sil, init_min, ims, mode = tup
        if not init_variants and init_min > 1:
            continue
        if min_len >= 1 and max_sil >= 0 and init_min >= 0 and ims >= 0:
            continue  # the ordinary grid covers these
        try:
            StreamTokenizer(lambda f: True, min_len, max_len, max_sil, init_min=init_min, init_max_silence=ims, mode=mode)
        except Exception:
            continue
        for s_ in range(G.count_upto(6)):
            c += 1
            yield G.nth_string(s_), tup, tok.KIND_NAMES[c % nk], tok.DELIVERY[c % nd], "offgrid"
    # recipes on small and on random larger tuples
    rng = ctx.rng("recipes")
    tuples = [p for i, p in enumerate(plain + (G.param_tuples(4, init=True) if init_variants else [])) if ctx.mine(i)]
    tuples += [G.random_params(rng, 12, init=None if init_variants else False) for _ in range(40 if conf["L"] < 10 else 400)]
    for params in tuples:
        for v in G.recipes(params):
            c += 1
            yield tuple(v), params, tok.KIND_NAMES[c % nk], tok.DELIVERY[c % nd], "recipe"
        if ctx.out_of_time():
            return
    if not want_random:
        return
    rng = ctx.rng("random")
    for _ in range(conf["random"]):
        params = G.random_params(rng, 12, init=None if init_variants else False)
        v = G.structured_random(rng, params, conf["max_frames"])
        c += 1
        yield v, params, rng.choice(tok.KIND_NAMES), rng.choice(tok.DELIVERY), "random"
        if (c & 255) == 0 and ctx.out_of_time():
            return
    # lengths far beyond the small grid (several hundred frames per token)
    rng = ctx.rng("large")
    for i in range(6 if conf["L"] < 10 else 150):
        max_len = rng.choice((257, 300, 1000))
        min_len = rng.choice((1, max_len // 2, max_len))
        max_sil = rng.choice((0, 1, 5, max_len - 1))
        mode = rng.choice(G.MODES)
        params = (min_len, max_len, max_sil, 0, 0, mode)
        V, S = (1,), (0,)
        pieces = []
        for _ in range(rng.randint(1, 3)):
            k = rng.choice((max_len - 1, max_len, max_len + 1, 2 * max_len, max_len - 2))
            tail = rng.choice((0, 1, max_sil, max_sil + 1))
            # a full piece whose last frame is the first silent frame after a valid one, and neighbours
            pieces += [V * max(k, 1) + S * tail + V * rng.choice((0, 1, 3)) + S * (max_sil + 2)]
        v = tuple(x for p_ in pieces for x in p_)
        c += 1
        yield v, params, rng.choice(("tuple", "char", "bytes")), rng.choice(tok.DELIVERY), "large_max_length"
    # the range between the random tuples (max_length <= 12) and the large ones (>= 257): every power-of-two neighbourhood,
    # with and without an initial phase, on streams of up to 2000 frames whose runs cluster around the tuple's critical lengths
    rng = ctx.rng("mid")
    for i in range(40 if conf["L"] < 10 else 4000):
        max_len = rng.choice((13, 15, 16, 17, 24, 31, 32, 33, 50, 63, 64, 65, 100, 127, 128, 129, 200, 255, 256))
        min_len = rng.choice((1, 2, max_len // 2, max_len - 1, max_len, rng.randint(1, max_len)))
        max_sil = rng.choice((0, 1, max_len // 3, max_len - 2, max_len - 1, rng.randint(0, max_len - 1)))
        if init_variants and rng.random() < 0.4:
            init_min = rng.choice((2, 3, max_len // 2, max_len - 1, rng.randint(2, max_len - 1)))
            ims = rng.choice((0, 1, 2, max_sil, max_sil + 1, max_len))
        else:
            init_min, ims = rng.choice(((0, 0), (1, 0), (0, 2)))
        params = (min_len, max_len, max_sil, init_min, ims, rng.choice(G.MODES))
        v = G.structured_random(rng, params, min(2000, rng.choice((3, 8, 14)) * max_len))
        c += 1
        yield v, params, rng.choice(tok.KIND_NAMES), rng.choice(tok.DELIVERY), "mid_max_length"
        if (c & 63) == 0 and ctx.out_of_time():
            return
    # the same whole numbers handed over as other integer types (numpy scalars of every width, IntEnum), and `generator=True`
    # spelled 1 / numpy.True_: results are bound by the same statements
    rng = ctx.rng("dress")
    small_d = plain + (G.param_tuples(4, init=True) if init_variants else [])
    for i in range(max(300, conf["random"] // 2)):
        if i % 3 == 0:
            max_len = rng.choice((100, 127, 128, 200, 255, 256, 257, 300))
            params = (rng.choice((1, max_len // 2, max_len)), max_len, rng.choice((0, 1, 3)), 0, 0, rng.choice(G.MODES))
            v = tuple([1] * rng.choice((max_len - 1, max_len, max_len + 1, 2 * max_len + 1)) + [0] * rng.randint(0, 5) + [1] * rng.randint(0, 3) + [0] * 5)
        else:
            params = small_d[rng.randrange(len(small_d))] if i % 2 else G.random_params(rng, 12, init=None if init_variants else False)
            v = G.structured_random(rng, params, 40)
        how = tok.DRESS[1 + i % (len(tok.DRESS) - 1)]
        gen = ("", "|gen=1", "|gen=np", "|gen=int8")[i % 4]
        c += 1
        yield v, params, rng.choice(("tuple", "char", "bytes", "int01")), f"{('generator' if gen else rng.choice(tok.DELIVERY))}|dress={how}{gen}", "dressed_parameters"
        if (c & 255) == 0 and ctx.out_of_time():
            return
    # tokenizers obtained by copying, generators advanced from alternating threads, sources whose read() delegates to a re-pointed implementation
    rng = ctx.rng("objects")
    small_o = plain + (G.param_tuples(4, init=True) if init_variants else [])
    for i in range(max(240, conf["random"] // 3)):
        params = small_o[rng.randrange(len(small_o))] if i % 2 else G.random_params(rng, 8, init=None if init_variants else False)
        v = G.structured_random(rng, params, 30)
        j = i % 6
        if j < 3:
            clone = ("copy", "deepcopy", "pickle")[j] + ("+original-used-first" if i % 4 < 2 else "")
            v1 = G.structured_random(rng, params, 12)[:12]
            delivery = f"{rng.choice(tok.DELIVERY)}|clone={clone}|prior={''.join('A' if x else 'a' for x in v1)}"
            kind = rng.choice(("char", "tuple", "bytes", "falsy_obj")) if j == 2 else rng.choice(tok.KIND_NAMES)
        elif j == 5:
            delivery, kind = f"{rng.choice(tok.DELIVERY)}|seq={rng.randint(1, 4)}", rng.choice(tok.KIND_NAMES)
        elif j == 3:
            delivery, kind = "generator|threads=alternate", rng.choice(tok.KIND_NAMES)
            if i % 12 == 3:
                v1 = G.structured_random(rng, params, 12)[:12]
                delivery += "|prior=" + "".join("A" if x else "a" for x in v1)
        else:
            delivery, kind = f"{rng.choice(tok.DELIVERY)}|switch={rng.randint(1, max(1, len(v)))}", rng.choice(tok.KIND_NAMES)
        c += 1
        yield v, params, kind, delivery, "object_histories"
        if (c & 255) == 0 and ctx.out_of_time():
            return
    # a transient fault of the source: one read() call raises, the next one succeeds.  Whether the exception reaches the
    # caller or the tokenizer carries on, every token handed out is bound by the properties
    if with_faults:
        rng = ctx.rng("faults")
        small_ = plain + (G.param_tuples(4, init=True) if init_variants else [])
        names = sorted(tok.FAULTS)
        for i in range(max(200, conf["random"] // 2)):
            params = small_[rng.randrange(len(small_))] if i % 3 else G.random_params(rng, 8, init=None if init_variants else False)
            v = G.structured_random(rng, params, 24)[:24]
            if i % 4 == 0 and len(v) > 2:
                # aimed: the fault arrives on the read that would complete max_length / right after a cut / at the end marker
                k = rng.choice([x for x in (params[1], params[1] + 1, 2 * params[1], len(v), len(v) + 1) if 1 <= x <= len(v) + 1])
            else:
                k = rng.randint(1, len(v) + 1)
            c += 1
            which = "vfault" if validator_faults and i % 3 == 2 and k <= len(v) else "fault"
            yield v, params, rng.choice(tok.KIND_NAMES), f"{rng.choice(tok.DELIVERY)}|{which}={k}:{names[i % len(names)]}", "source_fault"
            if (c & 255) == 0 and ctx.out_of_time():
                return
    # the same tokenizer OBJECT used on another stream first: every token of the second use is still bound by the property
    if not with_reuse:
        return
    rng = ctx.rng("reuse")
    small = plain + (G.param_tuples(4, init=True) if init_variants else [])
    for i in range(conf["random"]):
        params = small[rng.randrange(len(small))] if i % 2 else G.random_params(rng, 8, init=None if init_variants else False)
        v1 = G.structured_random(rng, params, 14)[:14]
        v = G.structured_random(rng, params, 30)
        use = rng.choice(tok.PRIOR_USES)
        delivery = f"{rng.choice(tok.DELIVERY)}|prior={''.join('A' if x else 'a' for x in v1)}|use={use}|j={rng.randint(0, 2)}"
        c += 1
        yield v, params, rng.choice(tok.KIND_NAMES), delivery, "reuse"
        if (c & 255) == 0 and ctx.out_of_time():
            return


def execute(ctx, v, params, kind, delivery):
    """Run the real tokenizer; returns (frames, tokens, src) or None after
    reporting an exception as a violation."""
    try:
        return tok.run(v, params, kind, delivery)
    except tok.EarlierResultAltered as exc:
        ctx.violation("earlier-result-altered-by-later-run", {"case": case_of(v, params, kind, delivery), "detail": str(exc)})
        return None
    except Exception as exc:  # accepted parameters + finite stream must never raise
        ctx.violation(
            "exception:" + type(exc).__name__,
            {"case": case_of(v, params, kind, delivery), "exception": repr(exc)[:300]},
        )
        return None


def case_of(v, params, kind, delivery):
    return {"v": "".join("A" if x else "a" for x in v), "params": list(params), "kind": kind, "delivery": delivery}


def parse_case(case):
    v = tuple(1 if ch == "A" else 0 for ch in case["v"])
    return v, tuple(case["params"]), case.get("kind", "tuple"), case.get("delivery", "list")


def flags(params):
    mode = params[5]
    return bool(mode & 2), bool(mode & 4)  # strict, drop


def split_level(ctx, n, oracle):
    """the same invariants on the events split() yields (tokens = regions, frames = analysis windows)."""
    import auditok

    from .. import audiocommon as AC

    rng = ctx.rng("split")
    for _ in range(n):
        case = AC.random_split_case(rng, max_windows=40, allow_partial=False)
        built = AC.build_audio(case)
        if built is None:
            continue
        data, verdicts = built
        bps = case["width"] * case["channels"]
        entry = ("split", "region.split", "region.splitp")[rng.randrange(3) if len(case["v"]) <= 20 and len(data) else rng.randrange(2)]
        ctx.count("split_level_entry_" + entry)
        try:
            if entry == "split":
                regions = list(auditok.split(data, **AC.split_kwargs(case), **AC.audio_kwargs(case)))
            elif entry == "region.split":
                regions = list(auditok.AudioRegion(data, case["rate"], case["width"], case["channels"]).split(**AC.split_kwargs(case)))
            else:
                import matplotlib.pyplot as plt

                regions = list(auditok.AudioRegion(data, case["rate"], case["width"], case["channels"]).splitp(show=False, **AC.split_kwargs(case)))
                plt.close("all")
        except Exception as exc:
            ctx.violation("exception:" + type(exc).__name__, {"case": AC.case_json(case), "exception": repr(exc)[:200]})
            continue
        tokens = []
        for r in regions:
            a = round(r.start * case["rate"]) // case["block"]
            n_w = -(-len(bytes(r)) // (case["block"] * bps))
            tokens.append((None, a, a + n_w - 1))
        ctx.case(repr(("split", data, sorted(AC.case_json(case).items()))), bool(tokens))
        ctx.count("split_level_cases")
        ctx.count("split_level_regions", len(tokens))
        if case["drop"] and case["strict"]:
            ctx.count("split_level_cases_drop_and_strict")
        for key, detail in oracle(verdicts, tokens, case):
            detail["case"] = AC.case_json(case)
            detail["regions(first_window,last_window)"] = [(s, e) for _, s, e in tokens][:20]
            ctx.violation("split:" + key, detail)
            break


