"""C02 - token length bounds and the constructor's accept/reject decision."""

import itertools

from auditok.core import StreamTokenizer

from ..models import inv
from . import tokcommon as T

ID = "C02"
LEVEL = "exploration"
TIERS = T.TIERS
RULE = ("(a) Same tokenizer workload as C01 (exhaustive small scope + recipes 'cut token, gap, short burst' and "
        "'initial phase reaching max_length' + structured random); oracle INV/C02: len<=max_length; len<min_length "
        "only in non-strict mode for a token adjacent to a full-length (cut) predecessor.  Non-trivial = >=1 token; "
        "distinct = distinct (string, tuple).  (b) Constructor grid, exhaustive: min_length,max_length,"
        "max_continuous_silence,init_min in [-2,6], init_max_silence in [-1,3], mode in [-9,9] (623295 tuples): "
        "ValueError iff the statement's predicate rejects; any other exception type is a violation.")
ASSUMPTIONS = C = [
    "validators are pure functions of the frame content",
    "a token of exactly max_length frames is taken to be a cut token (true for any tokenizer that cuts as soon as max_length is reached)",
    "held means: held on the executions listed in coverage",
]
EXHAUSTIVE = False
GOOD_MODES = (0, 2, 4, 6)


def expected_reject(min_len, max_len, max_sil, init_min, mode):
    return (max_len <= 0 or min_len <= 0 or min_len > max_len or max_sil >= max_len
            or init_min >= max_len or mode not in GOOD_MODES)


def constructor_grid(ctx):
    rng5 = range(-2, 7)
    idx = 0
    for min_len, max_len, max_sil, init_min in itertools.product(rng5, rng5, rng5, rng5):
        idx += 1
        if not ctx.mine(idx):
            continue
        for ims in range(-1, 4):
            for mode in range(-9, 10):
                exp = expected_reject(min_len, max_len, max_sil, init_min, mode)
                try:
                    StreamTokenizer(lambda f: True, min_len, max_len, max_sil, init_min=init_min,
                                    init_max_silence=ims, mode=mode)
                    got = "accepted"
                except ValueError:
                    got = "ValueError"
                except Exception as exc:
                    got = type(exc).__name__
                ctx.evaluations += 1
                ctx.count("constructor_tuples")
                ctx.count("constructor_" + got)
                tup = [min_len, max_len, max_sil, init_min, ims, mode]
                if got not in ("accepted", "ValueError"):
                    ctx.violation("constructor-raises-" + got, {"case": {"ctor": tup}, "got": got})
                elif exp and got == "accepted":
                    ctx.violation("constructor-accepts-invalid-tuple", {"case": {"ctor": tup}, "why": _why(*tup[:4], mode)})
                elif not exp and got == "ValueError":
                    ctx.violation("constructor-rejects-valid-tuple", {"case": {"ctor": tup}})


def _why(min_len, max_len, max_sil, init_min, mode):
    r = []
    if max_len <= 0: r.append("max_length<=0")
    if min_len <= 0: r.append("min_length<=0")
    if min_len > max_len: r.append("min_length>max_length")
    if max_sil >= max_len: r.append("max_continuous_silence>=max_length")
    if init_min >= max_len: r.append("init_min>=max_length")
    if mode not in GOOD_MODES: r.append("unknown mode")
    return r


def check_case(ctx, v, params, kind, delivery, origin):
    r = T.execute(ctx, v, params, kind, delivery)
    if r is None:
        ctx.case((v, params), True)
        return
    frames, tokens, src = r
    ctx.case((v, params), bool(tokens))
    ctx.count("tokens_observed", len(tokens))
    ctx.count("cases_" + origin)
    strict, drop = T.flags(params)
    min_len, max_len = params[0], params[1]
    for _, s, e in tokens:
        ln = e - s + 1
        if ln == max_len:
            ctx.count("tokens_cut_at_max_length")
        if ln < min_len:
            ctx.count("short_remainder_tokens")
    for key, detail in inv.c02(tokens, min_len, max_len, strict):
        detail["case"] = T.case_of(v, params, kind, delivery)
        detail["tokens"] = [(s, e) for _, s, e in tokens][:20]
        ctx.violation(key, detail)
    if tokens and ctx.want_sample():
        ctx.sample({"case": T.case_of(v, params, kind, delivery), "tokens": [(s, e) for _, s, e in tokens]})


def run_shard(ctx):
    # the same length rules on the events split() yields (tokens = regions, frames = analysis windows; flags spelled True / 1 / numpy.True_)
    T.split_level(ctx, 120 if ctx.tier == "quick" else 6000,
                  lambda verdicts, tokens, case: inv.c02([([None] * (e - s + 1), s, e) for _, s, e in tokens], case["min_len"], case["max_len"], bool(case["strict"])))
    constructor_grid(ctx)
    conf = TIERS[ctx.tier]
    for v, params, kind, delivery, origin in T.iter_cases(ctx, conf, validator_faults=True):
        check_case(ctx, v, params, kind, delivery, origin)


def replay(ctx, case):
    if "ctor" in case:
        min_len, max_len, max_sil, init_min, ims, mode = case["ctor"]
        exp = expected_reject(min_len, max_len, max_sil, init_min, mode)
        try:
            StreamTokenizer(lambda f: True, min_len, max_len, max_sil, init_min=init_min, init_max_silence=ims, mode=mode)
            got = "accepted"
        except ValueError:
            got = "ValueError"
        except Exception as exc:
            got = type(exc).__name__
        if (got == "accepted") == exp or got not in ("accepted", "ValueError"):
            ctx.violation("constructor-decision", {"case": case, "got": got, "expected_reject": exp})
        return
    v, params, kind, delivery = T.parse_case(case)
    check_case(ctx, v, params, kind, delivery, "replay")


def inconclusive(merged, tier):
    c = merged["counters"]
    out = []
    if c.get("constructor_tuples", 0) != 9 ** 4 * 5 * 19:
        out.append(f"constructor grid incomplete: {c.get('constructor_tuples', 0)}")
    for k in ("tokens_observed", "tokens_cut_at_max_length", "short_remainder_tokens", "constructor_accepted", "constructor_ValueError"):
        if c.get(k, 0) == 0:
            out.append(f"monitor never observed {k}")
    return out


def evidence_extra(merged, tier):
    return {"exhaustive_core": "constructor grid 9^4*5*19 = 623295 tuples, complete; tokenizer small scope as C01",
            "exhaustive_core_complete": not merged["truncated_by_time"]}
