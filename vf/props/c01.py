"""C01 - tokens are exact, ordered, non-overlapping slices of the input stream."""

from ..models import inv
from . import tokcommon as T

ID = "C01"
LEVEL = "exploration"
TIERS = T.TIERS
RULE = ("Real StreamTokenizer.tokenize() run on (validity string x parameter tuple x frame type x delivery mode). "
        "Exhaustive core: every string over {valid,invalid} up to length L (shortlex) x every accepted tuple with "
        "max_length<=4 and init_min=0 (120 tuples), and up to length Li x every init-phase tuple "
        "(init_min 2..max_length-1, init_max_silence 0..2); plus recipes (silence straddling a cut at every offset, "
        "cut+gap+burst, event at end of stream, long initial phase) and structured random streams up to 2000 frames "
        "with max_length<=12.  A case is non-trivial when at least one token was delivered; distinct = distinct "
        "(string, tuple).  Oracle: INV/C01 - index range, end-start+1==len(frames), frames are (by identity, else "
        "equality) the frames handed out at positions start..end, strictly increasing, non-overlapping.")
ASSUMPTIONS = [
    "validators are pure functions of the frame content (stateful user validators are outside the statement)",
    "streams are finite; the source returns None exactly at the end",
    "held means: held on the executions listed in coverage, nothing more",
]
EXHAUSTIVE = False


_HELD = {}


def recheck_held(ctx):
    """Tokens delivered by an earlier, unrelated tokenizer are still exactly what they were (nothing is shared between instances)."""
    h = _HELD.get("prev")
    if not h:
        return
    frames, tokens, snap, case = h
    ctx.count("held_results_rechecked")
    same = len(tokens) == len(snap) and all(
        t[1:] == b[1:] and len(t[0]) == len(b[0]) and all(x is y for x, y in zip(t[0], b[0])) for t, b in zip(tokens, snap))
    if not same:
        ctx.violation("delivered-token-altered-by-a-later-run", {"case": case, "tokens_then": [(b[1], b[2], len(b[0])) for b in snap][:10],
                                                                "tokens_now": [(t[1], t[2], len(t[0])) for t in tokens][:10]})
    _HELD["prev"] = None


def check_case(ctx, v, params, kind, delivery, origin):
    r = T.execute(ctx, v, params, kind, delivery)
    recheck_held(ctx)
    if r is not None and r[1]:
        _HELD["prev"] = (r[0], r[1], [(list(t[0]), t[1], t[2]) for t in r[1]], T.case_of(v, params, kind, delivery))
    if r is None:
        ctx.case((v, params), True)
        return
    frames, tokens, src = r
    ctx.case((v, params), bool(tokens))
    ctx.count("tokens_observed", len(tokens))
    ctx.count("frames_read", len(frames))
    ctx.count("cases_" + origin)
    ctx.count("kind_" + kind)
    ctx.count("delivery_" + delivery.split("|")[0])
    if src.faults:
        ctx.count("source_faults_injected")
        ctx.count("source_faults_that_reached_the_caller" if src.fault_propagated else "source_faults_absorbed_by_the_tokenizer")
    if src.reads - src.eos_returns != len(frames) and not src.fault_propagated:
        ctx.violation("source-not-read-to-end", {"case": T.case_of(v, params, kind, delivery), "reads": src.reads, "frames": len(frames)})
    for key, detail in inv.c01(frames, tokens):
        detail["case"] = T.case_of(v, params, kind, delivery)
        detail["tokens"] = [(s, e) for _, s, e in tokens][:20]
        ctx.violation(key, detail)
    if tokens and ctx.want_sample():
        ctx.sample({"case": T.case_of(v, params, kind, delivery), "tokens": [(s, e) for _, s, e in tokens]})


def run_shard(ctx):
    conf = TIERS[ctx.tier]
    for v, params, kind, delivery, origin in T.iter_cases(ctx, conf, validator_faults=True):
        check_case(ctx, v, params, kind, delivery, origin)


def replay(ctx, case):
    v, params, kind, delivery = T.parse_case(case)
    check_case(ctx, v, params, kind, delivery, "replay")


def inconclusive(merged, tier):
    c = merged["counters"]
    out = []
    if c.get("tokens_observed", 0) == 0:
        out.append("no token was ever observed")
    if c.get("held_results_rechecked", 0) == 0:
        out.append("held results were never re-checked")
    for k in ("cases_exhaustive", "cases_exhaustive_init", "cases_recipe", "cases_random", "cases_reuse", "cases_dressed_parameters", "cases_object_histories", "cases_offgrid", "cases_large_max_length", "cases_source_fault", "source_faults_injected"):
        if c.get(k, 0) == 0:
            out.append(f"workload class {k} never ran")
    return out


def evidence_extra(merged, tier):
    conf = TIERS[tier]
    return {"exhaustive_core": f"all strings len<={conf['L']} x 120 tuples (max_length<=4, init_min=0); "
                               f"all strings len<={conf['Li']} x init-phase tuples max_length<={conf['max_len_init']}",
            "exhaustive_core_complete": not merged["truncated_by_time"]}
