"""C10 - AudioReader framing: fixed-size blocks, overlap and max_read are exact."""

import shutil
import tempfile

from auditok import AudioReader, Recorder

from .. import readercommon as RC
from ..models import frame as F

ID = "C10"
LEVEL = "exploration"
TIERS = {"quick": {"shards": 16, "budget_s": 120, "random": 2500, "exh_len": 10},
         "thorough": {"shards": 16, "budget_s": 900, "random": 120000, "exh_len": 24}}
RULE = ("Real AudioReader read to exhaustion plus 1-5 further reads, over source kinds (bytes, Buffer/Raw/Wave source objects, "
        "raw/wav files eager and lazy, stdin), widths 1/2/4, 1-3 channels, source lengths 0..k blocks incl. empty and "
        "sub-block, block 1..8 (and 10..160) samples, hop None/==block/<block, max_read None/0/on and off block and sample "
        "boundaries/beyond the end, record on/off.  Bounded-exhaustive core: every (length<=exh_len, block<=6, hop<=block, "
        "max_read in 0..length+1 or None) on a bytes source.  Oracle FRAME: block k = visible[k*hop : k*hop+block] while it "
        "holds a new sample, then None on every further call; visible = first round(max_read*rate) samples; block_size in "
        "{floor exact, floor IEEE}; constructor errors for sub-sample block_dur and hop_dur>block_dur, none for hop==block.  "
        "Non-trivial = >=1 block returned; distinct = distinct (audio, block, hop, max_read, kind).")
ASSUMPTIONS = [
    "hop sizes of zero samples are outside the statement and not generated",
    "round(max_read*rate) is Python's round() of the product (ties to even), as the statement spells it",
    "held means: held on the executions listed in coverage",
]


def run_reader_case(ctx, case, tmpdir):
    data = RC.audio_of(case)
    cj = dict(case)
    try:
        if case.get("record") and (case["seed"] >> 2) % 2:
            reader, cleanup = RC.build_reader(case, data, tmpdir, cls=Recorder)  # the class that is "AudioReader(record=True)"
            ctx.count("readers_built_as_Recorder")
        else:
            reader, cleanup = RC.build_reader(case, data, tmpdir)
    except Exception as exc:
        ctx.case(repr(sorted(cj.items())), True)
        ctx.violation("constructor-raises:" + type(exc).__name__, {"case": cj, "exception": repr(exc)[:300]})
        return
    try:
        cands, probs = RC.expected_blocks(case, RC.effective_data(case, data), reader)
        for key, d in probs:
            ctx.violation(key, dict(d, case=cj))
        if case["seed"] % 5 == 0 and case["kind"] != "buffer_obj_preconsumed":  # (that source is handed over already open)
            # a read before open() fails (C11's clause); what matters here is that the reader is none the worse for it
            try:
                reader.read()
            except Exception:
                ctx.count("reads_before_open_attempted")
        reader.open()
        got = []
        longest = max(len(b) for _, b in cands)
        try:
            for i_ in range(longest + case["extra_reads"] + 1):
                if i_ == 1 and case["seed"] % 3 == 0 and case["kind"] != "raw_fifo_lazy":  # (opening a named pipe whose writer has gone blocks for ever)
                    reader.open()  # opening an open reader again changes nothing
                    ctx.count("redundant_opens_mid_stream")
                got.append(reader.read())
        except Exception as exc:
            ctx.case(repr(sorted(cj.items())), True)
            key = "read-raises-after-exhaustion" if got and got[-1] is None else "read-raises"
            ctx.violation(f"{key}:{type(exc).__name__}", {"case": cj, "reads_so_far": len(got), "exception": repr(exc)[:200]})
            return
        finally:
            try:
                reader.close()
            except Exception:
                pass
    finally:
        cleanup()
    ctx.count("readers")
    ctx.count("kind_" + case["kind"])
    second = None
    if case.get("record"):
        # a recording reader frames its replay exactly like the first pass
        try:
            reader.open()
            reader.rewind()
            second = [reader.read() for _ in range(len(got))]
            reader.close()
            ctx.count("second_passes_checked")
        except Exception as exc:
            ctx.violation("second-pass-raises:" + type(exc).__name__, {"case": cj, "exception": repr(exc)[:200]})
            return
    ctx.count("reads", len(got))
    if case["hop"] not in (None, case["block"]):
        ctx.count("readers_with_overlap")
    if case["hop"] is not None and reader.hop_size == reader.block_size and RC.durations_of(case)[1] < RC.durations_of(case)[0]:
        ctx.count("readers_hop_dur_below_block_dur_same_sample_count")
    if case["max_read_samples"] is not None:
        ctx.count("readers_with_max_read")
    if case["nsamples"] == 0:
        ctx.count("readers_on_empty_source")
    ok = False
    for vis, blocks in cands:
        exp = blocks + [None] * (len(got) - len(blocks))
        if got == exp:
            ok = True
            break
    ctx.case(repr(sorted(cj.items())), any(b is not None for b in got))
    ctx.count("nones_after_end_observed", sum(1 for b in got if b is None))
    if second is not None and second != got:
        bps_ = case["width"] * case["channels"]
        ctx.violation("second-pass-blocks-differ-from-first-pass", {"case": cj, "first": [None if b is None else len(b) // bps_ for b in got][:20],
                                                                     "second": [None if b is None else len(b) // bps_ for b in second][:20]})
    if not ok:
        vis, blocks = cands[0]
        # classify the first difference
        key = "blocks-differ-from-model"
        seq = [b for b in got if b is not None]
        bps = case["width"] * case["channels"]
        if any(b is not None for b in got[len(seq):]) or None in got[: len(seq)]:
            key = "data-returned-after-None"
        elif any(b == b"" for b in got):
            key = "empty-bytes-instead-of-None"
        elif sum(1 for b in got if b is None) == 0:
            key = "never-returns-None"
        elif len(seq) != len(blocks):
            total = len(b"".join(seq))
            key = "reads-beyond-max_read" if case["max_read_samples"] is not None and len(seq) > len(blocks) else "wrong-number-of-blocks"
        else:
            for i, (g, e) in enumerate(zip(seq, blocks)):
                if g != e:
                    key = "block-size-wrong" if len(g) != len(e) else ("overlap-block-content-wrong" if case["hop"] not in (None, case["block"]) else "block-content-wrong")
                    break
        ctx.violation(key, {"case": cj, "observed_block_sizes": [None if b is None else len(b) // bps for b in got][:30],
                            "expected_block_sizes": [len(b) // bps for b in blocks][:30], "visible_samples": vis})
    elif ctx.want_sample() and any(b is not None for b in got):
        bps = case["width"] * case["channels"]
        ctx.sample({"case": cj, "block_sizes_returned": [None if b is None else len(b) // bps for b in got]})


def constructor_cases(ctx):
    data = bytes(40)
    for rate in (8, 10, 100, 16000, 48000, 44100, 11025, 96000):
        for block_dur in (1 / rate, 2 / rate, 0.5 / rate, 0.99 / rate, 1.5 / rate, 0.1, 0.29, 0.57, 0.009, 0.35, 1001 / 16000, 0.9999999999 / rate,
                          0, 0.0, -1 / rate, -2.5 / rate, -0.1, -0.5 / rate):
            import math

            ulp_up = math.nextafter(block_dur, math.inf) if block_dur > 0 else None
            for hop_dur in (None, block_dur, block_dur / 2, block_dur * 2, block_dur + 1 / rate, block_dur + 0.5 / rate, block_dur * 1.01) + (
                    (ulp_up, block_dur * (1 + 1e-12), block_dur + block_dur * 3e-16) if ulp_up else ()):
                ctx.evaluations += 1
                ctx.count("constructor_cases")
                exp_err = None
                if block_dur <= 0 or F.W.block_size_ieee(block_dur, rate) == 0:
                    exp_err = "sub-sample block_dur"  # zero and negative durations are shorter than one sample too
                elif hop_dur is not None and hop_dur > block_dur:
                    exp_err = "hop_dur > block_dur"
                if block_dur > 0 and hop_dur is not None and hop_dur < block_dur and F.W.block_size_ieee(hop_dur, rate) == 0:
                    continue  # zero-sample hop: outside the statement
                try:
                    AudioReader(data, block_dur=block_dur, hop_dur=hop_dur, sr=rate, sw=1, ch=1)
                    got = None
                except Exception as exc:
                    got = type(exc).__name__
                case = {"ctor": [rate, block_dur, hop_dur]}
                if exp_err and got is None:
                    ctx.violation("constructor-accepts:" + exp_err.replace(" ", "-"), {"case": case})
                elif not exp_err and got is not None:
                    ctx.violation("constructor-rejects-valid-durations", {"case": case, "exception": got})
                elif got is not None:
                    ctx.count("constructor_errors_observed")


def float_corner_cases(ctx):
    """hop and block durations one or a few ulps apart: `hop > block` is an error however small the excess, and a hop one ulp
    BELOW the block is a different number of samples whenever the floor says so."""
    import math

    for block_dur, rate in ((0.3, 10), (0.5, 10), (0.1 + 0.2, 100), (0.7, 10), (1.1, 10), (0.35, 100), (0.6, 100), (2.5, 8)):
        for hop_dur, label in ((0.1 + 0.2 if block_dur == 0.3 else math.nextafter(block_dur, math.inf), "one-ulp-above"),
                               (math.nextafter(block_dur, 0), "one-ulp-below")):
            ctx.evaluations += 1
            ctx.count("float_corner_constructor_cases")
            case = {"ctor": [rate, block_dur, hop_dur], "corner": label}
            try:
                rd = AudioReader(bytes(4 * int(block_dur * rate) + 3), block_dur=block_dur, hop_dur=hop_dur, sr=rate, sw=1, ch=1)
            except Exception as exc:
                if hop_dur <= block_dur:
                    ctx.violation("constructor-rejects-valid-durations", {"case": case, "exception": type(exc).__name__})
                continue
            if hop_dur > block_dur:
                ctx.violation("constructor-accepts:hop_dur->-block_dur", {"case": case})
                continue
            want_block, want_hop = int(block_dur * rate), int(hop_dur * rate)
            if want_hop == 0:
                continue
            if (rd.block_size, rd.hop_size) != (want_block, want_hop):
                ctx.violation("block-or-hop-size-not-floor(dur*rate)", {"case": case, "block_size": rd.block_size, "hop_size": rd.hop_size, "expected": [want_block, want_hop]})
                continue
            rd.open()
            first, second = rd.read(), rd.read()
            rd.close()
            data = bytes(4 * int(block_dur * rate) + 3)
            if first is None or len(first) != want_block or (second is not None and len(data) >= want_hop + want_block and len(second) != want_block):
                ctx.violation("blocks-differ-from-model", {"case": case, "first": None if first is None else len(first), "second": None if second is None else len(second)})


def exact_number_types(ctx):
    """durations given as exact rationals (fractions.Fraction): floor(block_dur*rate) and round(max_read*rate) are then exact too -
    29/100 s at 100 Hz is 29 samples although the nearest double times 100 is 28.999999999999996"""
    from fractions import Fraction

    for num, den, rate in ((29, 100, 100), (57, 100, 100), (58, 100, 100), (7, 100, 100), (3, 10, 10), (1, 3, 9), (35, 100, 1000), (11, 10, 10)):
        block_dur = Fraction(num, den)
        want = (block_dur * rate).__floor__()
        ctx.evaluations += 1
        ctx.count("exact_rational_duration_cases")
        data = bytes(range(256))[: 3 * want + 2]
        case = {"ctor": [rate, f"Fraction({num},{den})", None], "expected_block_size": want}
        try:
            rd = AudioReader(data, block_dur=block_dur, sr=rate, sw=1, ch=1)
            rd.open()
            blocks = [rd.read() for _ in range(5)]
            rd.close()
        except Exception as exc:
            ctx.violation("constructor-rejects-valid-durations", {"case": case, "exception": repr(exc)[:200]})
            continue
        exp = [data[i : i + want] for i in range(0, len(data), want)][:5]
        exp += [None] * (5 - len(exp))
        if rd.block_size != want or blocks != exp:
            ctx.violation("block_size-not-floor(block_dur*rate)", {"case": case, "block_size": rd.block_size, "sizes": [None if b is None else len(b) for b in blocks]})
    for num, den, rate, want in ((23, 40, 100, 58), (1, 8, 100, 12), (3, 8, 100, 38), (29, 100, 100, 29)):
        mr = Fraction(num, den)
        ctx.count("exact_rational_duration_cases")
        data = bytes(range(200))
        try:
            rd = AudioReader(data, block_dur=0.1, max_read=mr, sr=rate, sw=1, ch=1)
            rd.open()
            got = b"".join(iter(rd.read, None))
            rd.close()
        except Exception as exc:
            ctx.violation("constructor-rejects-valid-durations", {"case": {"max_read": f"Fraction({num},{den})", "rate": rate}, "exception": repr(exc)[:200]})
            continue
        if got != data[:want]:
            ctx.violation("visible-data-not-round(max_read*rate)", {"case": {"max_read": f"Fraction({num},{den})", "rate": rate}, "visible": len(got), "expected": want})


def exhaustive_core(ctx, conf, tmpdir):
    idx = 0
    for n in range(0, conf["exh_len"] + 1):
        for block in range(1, 7):
            for hop in range(1, block + 1):
                for mr in [None] + list(range(0, n + 2)):
                    idx += 1
                    if not ctx.mine(idx):
                        continue
                    case = dict(width=1 + (idx % 2), channels=1 + (idx % 3 == 0), rate=10, block=block,
                                hop=(None if hop == block and idx % 2 else hop), nsamples=n, max_read_samples=mr,
                                kind="bytes", extra_reads=2, record=False, seed=idx)
                    run_reader_case(ctx, case, tmpdir)
                    ctx.count("exhaustive_core_cases")
        if ctx.out_of_time():
            return


def run_shard(ctx):
    conf = TIERS[ctx.tier]
    if ctx.shard == ctx.nshards - 1 and not ctx.replay:
        # the repository's own 579 tests as one more workload, with the passive AudioReader monitor riding on every call they make
        from .. import repotests

        repotests.run(ctx, "reader")
    tmpdir = tempfile.mkdtemp(prefix="vf-c10-")
    try:
        if ctx.shard == 0:
            constructor_cases(ctx)
            float_corner_cases(ctx)
            exact_number_types(ctx)
        exhaustive_core(ctx, conf, tmpdir)
        rng = ctx.rng("random")
        for i in range(conf["random"]):
            case = RC.random_reader_case(rng, small=(i % 5 != 0))
            run_reader_case(ctx, case, tmpdir)
            if (i & 31) == 0 and ctx.out_of_time():
                break
    finally:
        shutil.rmtree(tmpdir, ignore_errors=True)


def replay(ctx, case):
    if "ctor" in case:
        constructor_cases(ctx)
        float_corner_cases(ctx)
        return
    tmpdir = tempfile.mkdtemp(prefix="vf-c10-")
    try:
        run_reader_case(ctx, case, tmpdir)
    finally:
        shutil.rmtree(tmpdir, ignore_errors=True)


def inconclusive(merged, tier):
    c = merged["counters"]
    need = ["readers", "readers_with_overlap", "readers_with_max_read", "readers_on_empty_source", "nones_after_end_observed",
            "constructor_errors_observed", "exhaustive_core_cases", "readers_hop_dur_below_block_dur_same_sample_count", "second_passes_checked", "reads_before_open_attempted", "redundant_opens_mid_stream", "repo_tests_reader_blocks_checked"] + ["kind_" + k for k in RC.SOURCE_KINDS]
    return [f"monitor never observed {k}" for k in need if c.get(k, 0) == 0]


def evidence_extra(merged, tier):
    return {"exhaustive_core": f"bytes source: length 0..{TIERS[tier]['exh_len']} x block 1..6 x hop 1..block x max_read None/0..length+1",
            "exhaustive_core_complete": not merged["truncated_by_time"]}
