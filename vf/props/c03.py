"""C03 - silence tolerance: gaps inside an event never exceed the maximum."""

from .. import tok
from ..models import inv
from . import tokcommon as T

ID = "C03"
LEVEL = "exploration"
TIERS = T.TIERS
RULE = ("Same tokenizer workload as C01 with the recipes 'silence straddling a max_length cut at every offset "
        "0..max_silence on both sides', all four modes.  Oracle INV/C03 on the validity of the frames inside each "
        "delivered token (and, through split() on synthesized audio, on the windows of every yielded region): longest invalid run (carried across a cut into the immediate continuation) <= "
        "max_continuous_silence (<= max(max_continuous_silence, init_max_silence) when init_min>1); >=1 valid frame; "
        "first frame valid unless continuation; with dropping on, last frame valid unless the token has max_length "
        "frames.  Non-trivial = >=1 token; distinct = distinct (string, tuple).")
ASSUMPTIONS = [
    "validators are pure functions of the frame content, so the generating validity pattern is the verdict sequence the tokenizer received",
    "continuation is recognised from observable data: previous token has max_length frames and is adjacent",
    "negative max_continuous_silence is not driven through streams (it is in the C02 accept grid)",
    "held means: held on the executions listed in coverage",
]
EXHAUSTIVE = False


def check_case(ctx, v, params, kind, delivery, origin):
    r = T.execute(ctx, v, params, kind, delivery)
    if r is None:
        ctx.case((v, params), True)
        return
    frames, tokens, src = r
    ctx.case((v, params), bool(tokens))
    ctx.count("tokens_observed", len(tokens))
    ctx.count("cases_" + origin)
    min_len, max_len, max_sil, init_min, ims, mode = params
    strict, drop = T.flags(params)
    # what the monitor saw: tokens with inner silence, silence carried across a cut
    for k, (_, s, e) in enumerate(tokens):
        if not (isinstance(s, int) and isinstance(e, int) and 0 <= s <= e < len(v)):
            ctx.count("tokens_with_indices_outside_the_stream")  # C01's business; the validity oracle below does not need the indices
            continue
        vv = v[s : e + 1]
        if 0 in vv:
            ctx.count("tokens_with_inner_or_trailing_silence")
        if k and tokens[k - 1][2] + 1 == s and (tokens[k - 1][2] - tokens[k - 1][1] + 1) == max_len:
            ctx.count("continuation_tokens")
            if not v[tokens[k - 1][2]] and not vv[0]:
                ctx.count("silence_run_straddling_a_cut")
    if drop:
        ctx.count("drop_mode_tokens", len(tokens))
    # the observer re-applies the validator to the frames the token actually carries (not to the stream at the token's indices:
    # wrong indices are C01's business and must not blind this check)
    _, validator = tok.FRAME_KINDS[kind](())
    is_valid = validator.is_valid if hasattr(validator, "is_valid") else validator

    def validity_of(token):
        return [1 if is_valid(f) else 0 for f in token[0]]

    for key, detail in inv.c03(v, tokens, max_len, max_sil, drop, init_min, ims, validity_of=validity_of):
        detail["case"] = T.case_of(v, params, kind, delivery)
        detail["tokens"] = [(s, e) for _, s, e in tokens][:20]
        ctx.violation(key, detail)
    if tokens and ctx.want_sample():
        ctx.sample({"case": T.case_of(v, params, kind, delivery), "tokens": [(s, e) for _, s, e in tokens]})


def split_level(ctx, n):
    T.split_level(ctx, n, lambda verdicts, tokens, case: inv.c03(verdicts, tokens, case["max_len"], case["max_sil"], case["drop"], 0, 0))


def run_shard(ctx):
    conf = TIERS[ctx.tier]
    split_level(ctx, 120 if ctx.tier == "quick" else 6000)
    for v, params, kind, delivery, origin in T.iter_cases(ctx, conf):
        check_case(ctx, v, params, kind, delivery, origin)


def replay(ctx, case):
    v, params, kind, delivery = T.parse_case(case)
    check_case(ctx, v, params, kind, delivery, "replay")


def inconclusive(merged, tier):
    c = merged["counters"]
    return [f"monitor never observed {k}" for k in
            ("tokens_observed", "tokens_with_inner_or_trailing_silence", "continuation_tokens",
             "silence_run_straddling_a_cut", "drop_mode_tokens", "split_level_regions", "split_level_cases_drop_and_strict", "split_level_entry_region.splitp") if c.get(k, 0) == 0]
