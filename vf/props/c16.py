"""C16 - region slicing follows Python slice semantics on whole samples."""

import math
from fractions import Fraction

from auditok import AudioRegion

ID = "C16"
LEVEL = "exploration"
TIERS = {"quick": {"shards": 16, "budget_s": 120, "random": 6000, "exh_len": 5},
         "thorough": {"shards": 16, "budget_s": 900, "random": 300000, "exh_len": 7}}
RULE = ("region[a:b], region.seconds[a:b], region.millis[a:b], len(), duration on real AudioRegion objects (lengths 0..40 "
        "samples, widths 1/2/4, 1-4 channels, rates 1..48000).  Oracle REGION: the region is a Python list of multi-channel "
        "sample byte-strings and sample indexing must equal list slicing for every combination of positive/negative/None/"
        "out-of-range/huge bounds (bounded-exhaustive: lengths<=exh_len x bounds in [-9,9] and None x 3 formats); seconds: "
        "result == samples[trunc(a*rate) : round(b*rate)] with the product in IEEE doubles (ties accept either neighbour) and "
        "each bound within one sample period of the instant; millis[a:b] == seconds[a/1000:b/1000]; TypeError for a step, a "
        "non-slice index, float sample bounds, float millis, str bounds.  Non-trivial = non-empty result; distinct = "
        "distinct (region bytes, format, view, bounds).")
ASSUMPTIONS = [
    "a*rate is evaluated in IEEE doubles, the API's own number type; at an exact .5 tie either neighbour is accepted for the stop bound",
    "held means: held on the executions listed in coverage",
]


def sample_list(data, bps):
    return [data[i : i + bps] for i in range(0, len(data), bps)]


def check_result(ctx, res, exp_samples, region, case, what):
    if not isinstance(res, AudioRegion):
        ctx.violation(what + "-result-not-a-region", {"case": case, "type": type(res).__name__})
        return False
    if (res.sampling_rate, res.sample_width, res.channels) != (region.sampling_rate, region.sample_width, region.channels):
        ctx.violation(what + "-changes-audio-parameters", {"case": case})
        return False
    got = bytes(res)
    exp = b"".join(exp_samples)
    if got != exp:
        bps = region.sample_width * region.channels
        key = what + "-differs-from-python-slice"
        if len(got) % bps:
            key = what + "-returns-partial-samples"
        ctx.violation(key, {"case": case, "got_nsamples": len(got) / bps, "expected_nsamples": len(exp) // bps})
        return False
    return True


HUGE = {"+10**5000": 10 ** 5000, "-10**5000": -(10 ** 5000)}  # written symbolically in cases: they have no decimal spelling (int -> str limit)


def sample_slice(ctx, region, samples, a, b, case_base, dress=0):
    case = dict(case_base, view="samples", a=a, b=b, bound_types=dress)
    a, b = HUGE.get(a, a) if isinstance(a, str) else a, HUGE.get(b, b) if isinstance(b, str) else b
    try:
        res = region[_dress(a, dress) : _dress(b, dress)]
    except Exception as exc:
        ctx.case(repr(case), True)
        ctx.violation("sample-slice-raises:" + type(exc).__name__, {"case": case, "exception": repr(exc)[:200]})
        return
    exp = samples[a:b]
    ctx.case(repr(case), bool(exp))
    ctx.count("sample_slices")
    if (a is not None and a < 0) or (b is not None and b < 0):
        ctx.count("sample_slices_negative_bound")
    if check_result(ctx, res, exp, region, case, "sample-slice") and exp and ctx.want_sample():
        ctx.sample({"case": case, "result_samples": len(exp)})
    # len / duration of the result
    if len(res) != len(exp) or res.duration != len(exp) / region.sampling_rate:
        ctx.violation("len-or-duration-wrong", {"case": case, "len": len(res), "duration": res.duration, "expected_len": len(exp)})


def stop_candidates(x, rate):
    """admissible round(x*rate): IEEE round, and both neighbours at an exact tie."""
    p = x * rate
    c = {round(p)}
    q = Fraction(x) * rate
    if abs((q - math.floor(q)) - Fraction(1, 2)) <= Fraction(1, 10 ** 9):
        c |= {math.floor(q), math.floor(q) + 1}
    return c


class _MyInt(int):
    """an int subclass is an int"""


class _MyFloat(float):
    """a float subclass is a float"""


def _dress(x, how):
    """the same bound value as another legal type (subclasses of int/float, numpy.float64, enum.IntEnum)"""
    import enum

    import numpy as np

    if x is None or how == 0:
        return x
    if isinstance(x, bool):
        return x
    if isinstance(x, int):
        if how == 1:
            return _MyInt(x)
        if how == 2 and -1000 < x < 1000:
            return enum.IntEnum("B", {"v": x}).v
        return x
    if isinstance(x, float):
        if how == 1:
            return np.float64(x)
        if how == 2:
            return _MyFloat(x)
    return x


def time_slice(ctx, region, samples, a, b, case_base, view, via_temporary=False, dress=0):
    rate = region.sampling_rate
    case = dict(case_base, view=view, a=a, b=b, via_temporary=via_temporary, bound_types=dress)
    a, b = HUGE.get(a, a) if isinstance(a, str) else a, HUGE.get(b, b) if isinstance(b, str) else b
    try:
        if via_temporary:
            # the view of a region nobody else holds: region[...].seconds[...]
            res = (region[0:None].seconds if view == "seconds" else (region + region[0:0]).millis)[_dress(a, dress) : _dress(b, dress)]
        else:
            res = (region.seconds if view == "seconds" else region.millis)[_dress(a, dress) : _dress(b, dress)]
    except Exception as exc:
        ctx.case(repr(case), True)
        ctx.violation(view + "-slice-raises:" + type(exc).__name__, {"case": case, "exception": repr(exc)[:200]})
        return
    ta = 0 if a is None else (a if view == "seconds" else a / 1000)
    tb = None if b is None else (b if view == "seconds" else b / 1000)
    start = int(ta * rate)  # truncation toward zero, product in IEEE doubles
    stops = [None] if tb is None else sorted(stop_candidates(tb, rate))
    ok = False
    got = bytes(res) if isinstance(res, AudioRegion) else None
    for stop in stops:
        if got == b"".join(samples[start:stop]):
            ok = True
            break
    exp = samples[start : stops[0]]
    ctx.case(repr(case), bool(exp))
    ctx.count(view + "_slices")
    if not ok:
        check_result(ctx, res, exp, region, case, view + "-slice")
        return
    # independent sanity: each bound within one sample period of the requested instant
    small = abs(ta * rate) < 2 ** 50 and (tb is None or abs(tb * rate) < 2 ** 50)  # beyond that one ulp of the product exceeds a sample
    if small and (abs(start - Fraction(ta) * rate) >= 1 or any(s is not None and abs(s - Fraction(tb) * rate) > 1 for s in stops[:1])):
        ctx.violation(view + "-bound-more-than-one-sample-from-instant", {"case": case})
    if view == "millis":
        # millis view == seconds view at t/1000
        try:
            other = region.seconds[(None if a is None else a / 1000) : (None if b is None else b / 1000)]
            ctx.count("millis_vs_seconds_compared")
            if bytes(other) != got:
                ctx.violation("millis-view-differs-from-seconds-view", {"case": case})
        except Exception as exc:
            ctx.violation("seconds-slice-raises:" + type(exc).__name__, {"case": case})


def type_errors(ctx, region, case_base):
    bad = [
        ("samples", lambda r: r[1]), ("samples", lambda r: r[0:2:1]), ("samples", lambda r: r[0.5:2]), ("samples", lambda r: r[0:1.0]),
        ("samples", lambda r: r["a":2]), ("samples", lambda r: r[0:"b"]), ("samples", lambda r: r[(0, 1)]),
        ("seconds", lambda r: r.seconds[0:1:1]), ("seconds", lambda r: r.seconds[1]), ("seconds", lambda r: r.seconds["0":1]),
        ("seconds", lambda r: r.seconds[0:"1"]), ("millis", lambda r: r.millis[0.5:10]), ("millis", lambda r: r.millis[0:10.0]),
        ("millis", lambda r: r.millis[0:10:2]), ("millis", lambda r: r.millis[5]), ("millis", lambda r: r.millis["1":2]),
        ("samples", lambda r: r[0:2:None] if False else r[slice(0, 2, 2)]),
        # a wrong-typed bound / a step next to a legal bound of several thousand digits is still a TypeError
        ("samples", lambda r: r[10 ** 5000 : "a"]), ("samples", lambda r: r[0 : 10 ** 5000 : 2]), ("seconds", lambda r: r.seconds[-(10 ** 5000) : "1"]),
        ("millis", lambda r: r.millis[100.0 : 10 ** 5000]), ("samples", lambda r: r[0.5 : 10 ** 5000]),
        # wrong-typed bounds that happen to be falsy must be rejected like any other
        ("samples", lambda r: r[0.0:5]), ("samples", lambda r: r["":5]), ("samples", lambda r: r[[]:5]), ("samples", lambda r: r[():2]),
        ("samples", lambda r: r[0:0.0]), ("millis", lambda r: r.millis[0.0:20]), ("millis", lambda r: r.millis[0:0.0]),
        ("seconds", lambda r: r.seconds["":1]), ("seconds", lambda r: r.seconds[[]:1]), ("seconds", lambda r: r.seconds[0:""]),
    ]
    for i, (view, fn) in enumerate(bad):
        ctx.evaluations += 1
        ctx.count("type_error_cases")
        try:
            fn(region)
            ctx.violation(f"{view}-bad-index-accepted", {"case": dict(case_base, bad_index_no=i)})
        except TypeError:
            pass
        except Exception as exc:
            ctx.violation(f"{view}-bad-index-raises-{type(exc).__name__}", {"case": dict(case_base, bad_index_no=i)})


class _NamedTake(AudioRegion):
    """an application's region class with a constructor of its own (regions are a public dataclass; subclassing is plain use)"""

    def __init__(self, name, data, rate, width, channels):
        super().__init__(data, rate, width, channels)
        object.__setattr__(self, "name", name)


class _KeywordTake(AudioRegion):
    def __init__(self, data, sampling_rate, sample_width, channels, *, label="take"):
        super().__init__(data, sampling_rate, sample_width, channels)
        object.__setattr__(self, "label", label)


class _PaddedTake(AudioRegion):
    """adds one sample of silence at construction: its audio is what its .data holds"""

    def __init__(self, data, sampling_rate, sample_width, channels, start=None):
        super().__init__(bytes(data) + bytes(sample_width * channels), sampling_rate, sample_width, channels, start)


def build_region(cls, data, rate, width, channels):
    if cls == "named":
        return _NamedTake("take-1", data, rate, width, channels)
    if cls == "keyword":
        return _KeywordTake(data, rate, width, channels, label="x")
    if cls == "padded":
        return _PaddedTake(data[: len(data) - width * channels], rate, width, channels)  # -> .data == data
    return AudioRegion(data, rate, width, channels)


def mk_region(rng, n, width, channels, rate, cls=None):
    data = rng.randbytes(n * width * channels)
    if cls == "padded" and n == 0:
        cls = None
    if cls == "padded":
        data = data[: len(data) - width * channels] + bytes(width * channels)
    return build_region(cls, data, rate, width, channels), data


def run_shard(ctx):
    conf = TIERS[ctx.tier]
    if ctx.shard == ctx.nshards - 1 and not ctx.replay:
        # the repository's own 579 tests as one more workload, with the passive region-slicing monitor riding on every call they make
        from .. import repotests

        repotests.run(ctx, "region-slice")
    rng = ctx.rng("exh")
    bounds = [None] + list(range(-9, 10))
    idx = 0
    for n in range(0, conf["exh_len"] + 1):
        for (width, channels) in ((1, 1), (2, 2), (4, 3)):
            idx += 1
            if not ctx.mine(idx):
                continue
            region, data = mk_region(rng, n, width, channels, 10)
            samples = sample_list(data, width * channels)
            base = {"n": n, "width": width, "channels": channels, "rate": 10, "data": data.hex()}
            if len(region) != n or region.duration != n / 10:
                ctx.violation("len-or-duration-wrong", {"case": base, "len": len(region), "duration": region.duration})
            for a in bounds:
                for b in bounds:
                    sample_slice(ctx, region, samples, a, b, base)
                    ctx.count("exhaustive_sample_slices")
            type_errors(ctx, region, base)
    rng = ctx.rng("random")
    for i in range(conf["random"]):
        width, channels = rng.choice((1, 2, 4)), rng.choice((1, 2, 3, 4))
        rate = rng.choice((1, 3, 8, 10, 100, 1000, 8000, 16000, 44100, 48000))
        n = rng.choice((0, 1, 2, rng.randint(0, 12), rng.randint(0, 40)))
        cls_ = rng.choice(("named", "keyword", "padded")) if i % 8 == 3 else None
        if cls_ == "padded" and n == 0:
            cls_ = None
        region, data = mk_region(rng, n, width, channels, rate, cls_)
        samples = sample_list(data, width * channels)
        base = {"n": n, "width": width, "channels": channels, "rate": rate, "data": data.hex()}
        if cls_:
            base["cls"] = cls_
            ctx.count("regions_of_application_subclasses")
            if bytes(region) != data:
                ctx.violation("harness-exception-subclass-data", {"case": base})
                continue

        def ib():
            return rng.choice((None, 0, 1, -1, n, -n, n + 1, -n - 1, rng.randint(-n - 3, n + 3), 10 ** 12, -10 ** 12, 2 ** 70, -2 ** 70, "+10**5000", "-10**5000"))

        def tb():
            d = n / rate
            return rng.choice((None, 0, 0.0, d, -d, d / 2, rng.uniform(-1.2 * d - 1e-3, 1.2 * d + 1e-3), rng.randint(-n - 1, n + 1) / rate,
                               (rng.randint(0, n) + 0.5) / rate, -(rng.randint(0, n) + 0.5) / rate, 1e9, -1e9, int(d) + 1, 10 ** 400, -(10 ** 400), 2 ** 1024, "+10**5000", "-10**5000"))

        def mb():
            d = int(1000 * n / rate)
            # (no 10**400 here: the millisecond view is defined through t/1000 in seconds, which has no float value that far out;
            #  the unchanged code raises OverflowError there - noted in DESIGN.md, not generated)
            return rng.choice((None, 0, 1, -1, d, -d, d + 1, rng.randint(-d - 3, d + 3), 10 ** 9, 10 ** 300, -(10 ** 300)))

        # a view that is kept while other regions' views are looked up still belongs to its own region
        other_region, _ = mk_region(rng, rng.randint(0, 9), width, channels, rate)
        kept_s, kept_m = region.seconds, region.millis
        other_region.seconds, other_region.millis, other_region.sec, other_region.ms
        a_, b_ = tb(), tb()
        if not isinstance(a_, str) and not isinstance(b_, str) and (a_ is None or abs(a_) < 1e9) and (b_ is None or abs(b_) < 1e9):
            ctx.count("kept_views_checked")
            if bytes(kept_s[a_:b_]) != bytes(region.seconds[a_:b_]) or kept_s[a_:b_].sampling_rate != rate:
                ctx.violation("kept-view-slices-another-region", {"case": dict(base, view="seconds", a=a_, b=b_)})
            ma_, mb_ = mb(), mb()
            if bytes(kept_m[ma_:mb_]) != bytes(region.millis[ma_:mb_]):
                ctx.violation("kept-view-slices-another-region", {"case": dict(base, view="millis", a=ma_, b=mb_)})
        if i % 40 == 7 and n:
            # only the VIEWS are kept (returned from a helper, stored in a list); the region variable is gone and a garbage
            # collection has run: the views still slice their region
            import gc

            tmp_region, tmp_data = mk_region(rng, n, width, channels, rate)
            only_s, only_m = tmp_region.seconds, tmp_region.millis
            del tmp_region
            gc.collect()
            ctx.count("views_used_after_their_region_variable_is_gone")
            try:
                if bytes(only_s[0:None]) != tmp_data or bytes(only_m[0:None]) != tmp_data or bytes(only_s[0 : 1 / rate]) != tmp_data[: width * channels]:
                    ctx.violation("view-outliving-the-region-variable-slices-wrong", {"case": dict(base, data=tmp_data.hex())})
            except Exception as exc:
                ctx.violation("view-outliving-the-region-variable-raises:" + type(exc).__name__, {"case": dict(base, data=tmp_data.hex()), "exception": repr(exc)[:200]})
        for k_ in range(3):
            sample_slice(ctx, region, samples, ib(), ib(), base, dress=rng.choice((0, 0, 1, 2)))
            time_slice(ctx, region, samples, tb(), tb(), base, "seconds", via_temporary=(k_ == 1), dress=rng.choice((0, 0, 1, 2)))
            time_slice(ctx, region, samples, mb(), mb(), base, "millis", via_temporary=(k_ == 2), dress=rng.choice((0, 0, 1, 2)))
            if k_ == 0:
                ctx.count("slices_through_a_temporary_region", 2)
        if i % 60 == 11:
            # regions of one to three seconds at telephone-to-studio rates: millisecond and second bounds well above 1000 ms,
            # where t/1000*rate is not an integer in binary floating point although it is one on paper
            rate2 = rng.choice((8000, 16000, 32000, 48000, 44100, 22050, 1000))
            n2 = rate2 + rng.randint(0, 2 * rate2)
            region2, data2 = mk_region(rng, n2, 1, 1, rate2)
            samples2 = sample_list(data2, 1)
            base2 = {"n": n2, "width": 1, "channels": 1, "rate": rate2, "data_is": "see replay index"}
            d_ms = 1000 * n2 // rate2
            ctx.count("long_regions_sliced")
            for _ in range(40):
                a = rng.choice((rng.randint(0, d_ms), rng.randint(1000, max(1000, d_ms)), 1001, 9, 1009, 2001, rng.randint(0, 30)))
                b = rng.choice((None, rng.randint(a, max(a, d_ms + 5)), a + 1))
                time_slice(ctx, region2, samples2, a, b, base2, "millis")
                time_slice(ctx, region2, samples2, a / 1000, (None if b is None else b / 1000), base2, "seconds")
        if (i & 63) == 0 and ctx.out_of_time():
            break


def replay(ctx, case):
    data = bytes.fromhex(case["data"])
    region = build_region(case.get("cls"), data, case["rate"], case["width"], case["channels"])
    samples = sample_list(data, case["width"] * case["channels"])
    base = {k: case[k] for k in ("n", "width", "channels", "rate", "data", "cls") if k in case}
    if "bad_index_no" in case:
        type_errors(ctx, region, base)
    elif case.get("view", "samples") == "samples":
        sample_slice(ctx, region, samples, case.get("a"), case.get("b"), base)
    else:
        time_slice(ctx, region, samples, case["a"], case["b"], base, case["view"])


def inconclusive(merged, tier):
    c = merged["counters"]
    need = ["sample_slices", "sample_slices_negative_bound", "seconds_slices", "millis_slices", "millis_vs_seconds_compared",
            "type_error_cases", "exhaustive_sample_slices", "slices_through_a_temporary_region", "kept_views_checked", "repo_tests_region_slices_checked", "regions_of_application_subclasses", "views_used_after_their_region_variable_is_gone"]
    return [f"monitor never observed {k}" for k in need if c.get(k, 0) == 0]


def evidence_extra(merged, tier):
    return {"exhaustive_core": f"sample slicing: lengths 0..{TIERS[tier]['exh_len']} x (a,b) in ([-9,9] U None)^2 x formats (1,1),(2,2),(4,3)",
            "exhaustive_core_complete": not merged["truncated_by_time"]}
