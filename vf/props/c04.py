"""C04 - detection is complete: tokens == declarative greedy segmentation."""

from ..models.seg import seg
from . import tokcommon as T

ID = "C04"
LEVEL = "exploration"
TIERS = {
    "quick": dict(T.TIERS["quick"], L=10, random=4000),
    "thorough": dict(T.TIERS["thorough"], L=13, random=200000),
}
RULE = ("Reference-model monitor: the whole token list of the real StreamTokenizer (init_min in {0,1}) must equal "
        "SEG(validity, min_length, max_length, max_continuous_silence, strict, drop), a ~30-line declarative model "
        "written from the statement (no automaton).  Exhaustive core: every validity string up to length L x the 120 "
        "tuples with max_length<=4; plus recipes and structured random streams (max_length<=12, up to 2000 frames).  "
        "Non-trivial = the model expects >=1 token; distinct = distinct (string, tuple).")
ASSUMPTIONS = [
    "validators are pure functions of the frame content",
    "SEG is the specification (vf/models/seg.py); its own hand-computed cases are checked by `vf selftest`",
    "held means: held on the executions listed in coverage",
]
EXHAUSTIVE = False


def classify(v, params, got, exp):
    """Mechanism key from the structure of the first difference."""
    min_len, max_len = params[0], params[1]
    gs, es = set(got), set(exp)
    extra = sorted(gs - es)
    missing = sorted(es - gs)
    if extra and not missing:
        s, e = extra[0]
        if e - s + 1 < min_len:
            return "invented-short-token"
        return "invented-token"
    if missing and not extra:
        s, e = missing[0]
        if e == len(v) - 1:
            return "lost-token-at-end-of-stream"
        if any(pe + 1 == s for _, pe in exp):
            return "lost-piece-after-cut"
        return "lost-token"
    # both: something moved
    (gs0, ge0), (es0, ee0) = extra[0], missing[0]
    if gs0 == es0:
        return "token-shortened" if ge0 < ee0 else "token-lengthened"
    if ge0 == ee0:
        return "token-start-shifted"
    return "token-shifted"


def check_case(ctx, v, params, kind, delivery, origin):
    if params[3] > 1:
        return
    strict, drop = T.flags(params)
    exp = seg(v, params[0], params[1], params[2], strict, drop)
    r = T.execute(ctx, v, params, kind, delivery)
    ctx.case((v, params), bool(exp))
    if r is None:
        return
    frames, tokens, src = r
    got = [(s, e) for _, s, e in tokens]
    ctx.count("tokens_observed", len(got))
    ctx.count("tokens_expected", len(exp))
    ctx.count("cases_" + origin)
    if exp and exp[-1][1] == len(v) - 1:
        ctx.count("cases_with_token_ending_at_end_of_stream")
    if any(exp[i][1] + 1 == exp[i + 1][0] for i in range(len(exp) - 1)):
        ctx.count("cases_with_cut_and_continuation")
    if src.faults:
        ctx.count("source_faults_injected")
    if src.fault_propagated:
        # the run ended with the injected exception: what was delivered before it are final tokens, i.e. a prefix of the model's
        if got != exp[:len(got)]:
            ctx.violation("tokens-before-a-source-fault-differ:" + classify(v, params, got, exp[:len(got)]), {
                "case": T.case_of(v, params, kind, delivery), "observed": got[:30], "expected": exp[:30]})
        return
    if got != exp:
        ctx.violation(classify(v, params, got, exp), {
            "case": T.case_of(v, params, kind, delivery), "observed": got[:30], "expected": exp[:30]})
    if exp and ctx.want_sample():
        ctx.sample({"case": T.case_of(v, params, kind, delivery), "tokens": got, "model": exp})


def run_shard(ctx):
    conf = TIERS[ctx.tier]
    if ctx.shard == ctx.nshards - 1:
        # the repository's own 579 tests, with the passive tokenizer monitor (INV + SEG) riding on every tokenize() call
        from .. import repotests

        st = repotests.run(ctx, "tokenizer")  # every INV / SEG finding of the passive tokenizer monitor
        if st:
            ctx.evaluations += st.get("tokenize_calls", 0)
    for v, params, kind, delivery, origin in T.iter_cases(ctx, conf, init_variants=False):
        check_case(ctx, v, params, kind, delivery, origin)


def replay(ctx, case):
    v, params, kind, delivery = T.parse_case(case)
    check_case(ctx, v, params, kind, delivery, "replay")


def inconclusive(merged, tier):
    c = merged["counters"]
    return [f"monitor never observed {k}" for k in
            ("tokens_observed", "tokens_expected", "cases_with_token_ending_at_end_of_stream",
             "cases_with_cut_and_continuation", "cases_exhaustive", "cases_random", "repo_tests_tokenize_calls", "repo_tests_checked_c04") if c.get(k, 0) == 0]


def evidence_extra(merged, tier):
    return {"exhaustive_core": f"all validity strings len<={TIERS[tier]['L']} x 120 tuples (max_length<=4, init_min=0)",
            "exhaustive_core_complete": not merged["truncated_by_time"]}
