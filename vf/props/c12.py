"""C12 - every observer gets every detection exactly once, in order; all threads end."""

import random
import shutil
import tempfile

from .. import audiocommon as AC
from .. import pipeline as P
from ..ctx import stable_hash

from ..ctx import scratch_dir  # noqa: E402

ID = "C12"
LEVEL = "exploration"
TIERS = {"quick": {"shards": 16, "budget_s": 120, "runs": 100, "line_runs": 16, "stress_runs": 12, "systematic_pipelines": 2, "systematic_deviations": 1},
         "thorough": {"shards": 16, "budget_s": 900, "runs": 9000, "line_runs": 600, "stress_runs": 150, "systematic_pipelines": 6, "systematic_deviations": 2}}
RULE = ("The real TokenizerWorker + observer workers (recording observers, PrintWorker with captured stdout, RegionSaverWorker, "
        "AudioEventsJoinerWorker; optionally a StreamSaverWorker as reader; with and without a logger; event-free streams; an "
        "observer that is killed by an injected exception mid-stream next to healthy ones) run under a deterministic cooperative scheduler that "
        "replaces auditok.workers.Queue and Worker.start/join: exactly one thread runs at a time, every hand-over and every "
        "queue-wait timeout firing is a recorded decision of a seeded strategy (uniform, sticky, PCT d=1..3, starvation, timeout "
        "storm; line-level pre-emption inside workers.py via sys.monitoring in 'line' runs).  No external stop is issued.  Oracle "
        "on the recorded history: each observer's message list == split() of the same input (ids 1..k, start, end, bytes), == "
        "TokenizerWorker.detections; every thread DONE; scheduler verdicts deadlock / non-termination (>200 consecutive steps "
        "with only timeouts enabled) are violations, step/wall caps are inconclusive.  Systematic core: for tiny pipelines (3-5 "
        "blocks, 1-2 observers) EVERY schedule with at most k deviations from the default 'keep running' policy is enumerated "
        "(k=1 quick, k=2 thorough; a deviation = switching thread or firing a timeout).  A real-time stress mode (real Queue, "
        "switch interval 1e-6 s, tiny observer timeouts, random sleeps) complements it.  Non-trivial = >=1 detection and >=1 "
        "observer; distinct = distinct decision trace.")
ASSUMPTIONS = [
    "the scheduler substitutes its own queue for queue.Queue: interleavings inside queue.Queue itself are trusted to the standard library",
    "expected detections are what split() returns for the same input (tied to the independent model by C05)",
    "liveness is restated as bounded progress under the scheduler; wall-clock watchdogs only ever yield 'inconclusive'",
    "held means: held on the schedules listed in coverage",
]


def check_run(ctx, case, data, tmpdir, res, expected, what="sched"):
    cj = P.case_json(case)
    w = {"case": cj, "trace": P.trace_summary(res)}
    for key, detail in P.verdict_problems(res):
        if key.startswith("?"):
            ctx.count("inconclusive_runs")
            ctx.note(f"inconclusive run: {key} {detail}")
            return False
        ctx.violation(key, dict(w, **detail))
        return False
    dets = [(d.id, d.start, d.end) for d in res.detections]
    exp3 = [(i, s, e) for i, s, e, _ in expected]
    if dets != exp3:
        ctx.violation("worker-detections-differ-from-split", dict(w, detections=dets[:12], expected=exp3[:12]))
        return False
    for o in res.observers:
        kind = o.vf_kind
        ctx.count("observers_checked_" + kind)
        if kind == "faulty":
            if getattr(o, "vf_died", False):
                ctx.count("observers_that_died_mid_stream")
            continue  # it was killed on purpose; the healthy ones are checked below
        if kind == "rec":
            got = o.vf_log
            if got != expected:
                ids = [g[0] for g in got]
                exp_ids = [e[0] for e in expected]
                if len(ids) != len(set(ids)):
                    key = "observer-got-detection-twice"
                elif sorted(ids) == exp_ids and ids != exp_ids:
                    key = "observer-got-detections-out-of-order"
                elif len(ids) < len(exp_ids):
                    key = "observer-lost-detection"
                elif len(ids) > len(exp_ids):
                    key = "observer-got-extra-detection"
                else:
                    key = "observer-detection-content-differs"
                ctx.violation(key, dict(w, observer=o.vf_name, got=[g[:3] for g in got][:12], expected=exp3[:12]))
                return False
            ctx.count("messages_checked", len(got))
        elif kind == "print":
            lines = [ln for ln in res.stdout.splitlines() if ln.strip()]
            exp_lines = [f"{i} {s:.3f} {e:.3f} {len(b) / (case['width'] * case['channels'] * case['rate']):.3f}" for i, s, e, b in expected]
            if lines != exp_lines:
                key = "print-observer-lines-differ"
                if len(lines) < len(exp_lines):
                    key = "observer-lost-detection"
                ctx.violation(key, dict(w, observer=o.vf_name, got=lines[:12], expected=exp_lines[:12]))
                return False
            ctx.count("messages_checked", len(lines))
        elif kind == "command":
            import os

            names = os.listdir(o.vf_dir)
            if len(names) != len(expected):
                ctx.violation("observer-lost-detection" if len(names) < len(expected) else "observer-got-extra-detection",
                              dict(w, observer=o.vf_name, commands_run=len(names), expected_count=len(expected)))
                return False
            want = sorted(b for _, _, _, b in expected)
            got = sorted(P.wav_read(os.path.join(o.vf_dir, n_))[0] for n_ in names)
            if got != want:
                ctx.violation("observer-detection-content-differs", dict(w, observer=o.vf_name))
                return False
            ctx.count("messages_checked", len(names))
        elif kind == "regionsaver":
            import os

            names = sorted(os.listdir(o.vf_dir))
            if len(names) != len(expected):
                ctx.violation("observer-lost-detection" if len(names) < len(expected) else "observer-got-extra-detection",
                              dict(w, observer=o.vf_name, files=names[:12], expected_count=len(expected)))
                return False
            ctx.count("messages_checked", len(names))
        elif kind == "joiner":
            try:
                frames, r, sw, ch = P.wav_read(o.vf_path)
            except Exception as exc:
                ctx.violation("joiner-file-unreadable", dict(w, observer=o.vf_name, exception=repr(exc)[:200]))
                return False
            sil = bytes(round(case["silence"] * case["rate"]) * case["width"] * case["channels"])
            if frames != sil.join(b for _, _, _, b in expected):
                ctx.violation("joiner-file-differs-from-detections", dict(w, observer=o.vf_name, got_len=len(frames)))
                return False
            ctx.count("messages_checked", len(expected))
    return True


def one(ctx, case, tmpdir, decisions=None):
    built = AC.build_audio(case)
    if built is None:
        return
    data, verdicts = built
    for f in __import__("os").listdir(tmpdir):
        p = __import__("os").path.join(tmpdir, f)
        shutil.rmtree(p) if __import__("os").path.isdir(p) else __import__("os").unlink(p)
    expected = P.split_reference(data, case)
    res = P.run_pipeline(case, data, tmpdir, decisions=decisions)
    s = res.sched
    trace_hash = stable_hash([case["observers"], s.decisions])
    ctx.case(trace_hash, bool(expected) and bool(case["observers"]))
    ctx.count("scheduled_runs")
    ctx.count("strategy_" + case["strategy"])
    ctx.count("steps", s.steps)
    ctx.count("context_switches", s.context_switches)
    ctx.count("timeouts_fired", s.timeouts_fired)
    ctx.count("timed_waits_offered", s.timed_waits)
    ctx.count("detections_expected", len(expected))
    ctx.maxi("queue_depth", s.max_queue_depth)
    ctx.maxi("threads", len(s.states))
    if case.get("line_p"):
        ctx.count("line_mode_runs")
        if case.get("line_gran") == "instr":
            ctx.count("instruction_mode_runs")
            ctx.maxi("instruction_sites_seen", res.info["lines_seen"])
        elif case.get("line_scope") == "all":
            ctx.count("all_module_line_mode_runs")
            ctx.maxi("all_module_lines_seen", res.info["lines_seen"])
        ctx.count("line_preemptions", res.info["line_preemptions"])
        if case.get("line_gran") != "instr" and case.get("line_scope", "workers") == "workers":
            ctx.maxi("workers_py_lines_seen", res.info["lines_seen"])
    if case["saver"] is not None:
        ctx.count("runs_with_stream_saver")
    if case.get("hop"):
        ctx.count("runs_over_an_overlapping_reader")
    ok = check_run(ctx, case, data, tmpdir, res, expected)
    if ok and expected and ctx.want_sample():
        ctx.sample({"case": {k: P.case_json(case)[k] for k in ("v", "observers", "strategy", "timeout_budget", "saver")},
                    "detections": [(i, s_, e) for i, s_, e, _ in expected][:6], "steps": s.steps,
                    "context_switches": s.context_switches, "timeouts_fired": s.timeouts_fired,
                    "first_decisions": [list(t[1:3]) for t in s.trace[:25]]})


def systematic(ctx, conf, tmpdir):
    """all schedules with <= k deviations from the default policy, for tiny pipelines."""
    from ..sched import systematic as SY

    rng = ctx.rng("systematic")
    shapes = [(["rec"], False), (["rec", "rec"], False), (["rec", "joiner"], False), (["rec"], True), (["print", "rec"], False),
              (["regionsaver"], False)]
    for n in range(conf["systematic_pipelines"]):
        observers, saver = shapes[(ctx.shard + n) % len(shapes)]
        case = P.small_pipeline_case(rng, rng.choice((3, 4, 5)), observers, saver)
        built = AC.build_audio(case)
        if built is None:
            continue
        data, _ = built
        expected = P.split_reference(data, case)

        def run_fn(strat):
            P.clean_dir(tmpdir)
            return P.run_pipeline(case, data, tmpdir, strategy=strat)

        ok = True
        for devs, strat, res in SY.enumerate_schedules(run_fn, conf["systematic_deviations"], (lambda: ctx.phase_over(0.85))):
            s = res.sched
            ctx.case(stable_hash(["sys", case["v"], observers, saver, s.decisions]), bool(expected))
            ctx.count("systematic_schedules")
            ctx.count("steps", s.steps)
            ctx.count("timeouts_fired", s.timeouts_fired)
            ctx.count("timed_waits_offered", s.timed_waits)
            ctx.count("context_switches", s.context_switches)
            if not check_run(ctx, dict(case, deviations={str(k): v for k, v in devs.items()}), data, tmpdir, res, expected):
                ok = False
                break
        if ok and SY.enumerate_schedules.last_complete:
            ctx.count("systematic_pipelines_fully_enumerated")


def marathons(ctx, tmpdir):
    """(a) more than a thousand queue-wait timeouts in a row on idle observers before the stream moves on;
       (b) one run with more than 10000 detections."""
    from ..sched import strategies as SS

    rng = ctx.rng("marathon")
    # (a)
    case = P.small_pipeline_case(rng, 5, ["rec", "joiner"], False)
    built = AC.build_audio(case)
    if built is not None:
        data, _ = built
        P.clean_dir(tmpdir)
        expected = P.split_reference(data, case)
        strat = SS.Marathon(rng.getrandbits(32), 1300)
        case["strategy"] = "marathon(1300 consecutive timeouts)"
        res = P.run_pipeline(case, data, tmpdir, strategy=strat)
        ctx.count("timeout_marathon_runs")
        ctx.maxi("timeouts_fired_in_one_run", res.sched.timeouts_fired)
        ctx.count("timeouts_fired", res.sched.timeouts_fired)
        ctx.count("timed_waits_offered", res.sched.timed_waits)
        ctx.case(stable_hash(["marathon", res.sched.steps, res.sched.timeouts_fired]), bool(expected))
        check_run(ctx, case, data, tmpdir, res, expected)
    # (b)
    case = P.small_pipeline_case(rng, 4, ["rec"], False)
    n = 10100 + rng.randint(0, 400)
    case.update(block=1, w=1 / 8, rate=8, width=1, channels=1, thr=20.0, min_len=1, max_len=1, max_sil=0, partial=0)
    case["v"] = [1] * n
    built = AC.build_audio(case)
    if built is not None:
        data, _ = built
        P.clean_dir(tmpdir)
        expected = P.split_reference(data, case)
        case["strategy"] = "sticky"
        res = P.run_pipeline(case, data, tmpdir, strategy=SS.Sticky(rng.getrandbits(32), timeout_budget=3, p=0.9))
        ctx.count("runs_with_more_than_10000_detections")
        ctx.case(stable_hash(["many-detections", n, res.sched.steps]), True)
        check_run(ctx, dict(case, v=[1, 1, 1], note=f"{n} windows, each one a detection"), data, tmpdir, res, expected)


def stress(ctx, conf, tmpdir):
    from ..sched import stress as ST

    rng = ctx.rng("stress")
    for i in range(conf["stress_runs"]):
        case = P.random_pipeline_case(rng, max_windows=25, want_saver=False)
        case["observers"] = [k for k in case["observers"] if k == "rec"] or ["rec"]
        built = AC.build_audio(case)
        if built is None:
            continue
        data, _ = built
        expected = P.split_reference(data, case)
        twice = i % 4 == 1
        out = ST.run_real(case, data, rng, twice=twice)
        ctx.count("stress_runs")
        if twice:
            ctx.count("stress_runs_with_two_pipelines_set_up_on_one_reader")
        ctx.case(stable_hash(["stress", data, repr(sorted(P.case_json(case).items()))]), bool(expected))
        if out.get("raised"):
            ctx.violation("worker-thread-raised:" + out["raised"][0][0], {"case": P.case_json(case), "mode": "real-time stress" + (", two pipelines set up on one reader, run one after the other" if twice else ""),
                                                                           "exception": out["raised"][0][1]})
            continue
        if out["inconclusive"]:
            ctx.count("inconclusive_runs")
            ctx.note("stress watchdog fired: " + out["inconclusive"])
            continue
        w = {"case": P.case_json(case), "mode": "real-time stress" + (", two pipelines set up on one reader, run one after the other" if twice else "")}
        if out["alive"]:
            ctx.violation("thread-never-terminates", dict(w, threads=out["alive"]))
            continue
        for name, log in out["logs"].items():
            ctx.count("stress_messages_checked", len(log))
            if log != expected:
                ctx.violation("observer-lost-detection" if len(log) < len(expected) else "observer-detection-content-differs",
                              dict(w, observer=name, got=[g[:3] for g in log][:12], expected=[e[:3] for e in expected][:12]))
                break
        if ctx.out_of_time():
            return


def run_shard(ctx):
    conf = TIERS[ctx.tier]
    tmpdir = scratch_dir(ctx, "vf-c12-")
    try:
        rng = ctx.rng("runs")
        for i in range(conf["runs"]):
            case = P.random_pipeline_case(rng, max_windows=30 if i % 5 else 60, many_detections=(i % 8 == 3), allow_hop=True)
            if i % 8 == 3:
                ctx.count("runs_with_long_bursts_of_detections")
            if i % 3 == 1:
                case["logger"] = True  # as --debug does on the command line
                ctx.count("runs_with_a_logger")
            if i % 10 == 7:
                case["v"] = [0] * len(case["v"])  # event-free stream
            if i % 7 == 4 and case["saver"] is None:
                case["close_fault"] = True  # closing the source fails after a normal end of stream: observers must still be told to stop
                ctx.count("runs_with_a_failing_close")
            if i % 5 == 1:
                case["start_order"] = "tokenizer-first"
                ctx.count("runs_started_tokenizer_first")
            if i % 4 == 3 and case["observers"]:
                # a blocking wait (timeout=None) is a legal queue timeout
                case["observer_timeouts"] = [None if (i + k) % 2 else t for k, t in enumerate(case["observer_timeouts"])]
                ctx.count("runs_with_blocking_observer_waits")
            if i % 9 == 5:
                case["observers"] = list(case["observers"]) + ["command"]
                case["observer_timeouts"] = list(case["observer_timeouts"]) + [0.2]
                case["v"] = case["v"][:14]  # every detection costs a shell
                ctx.count("runs_with_a_command_observer")
            if i % 6 == 2 and case["observers"]:
                # one observer dies while processing a message: the healthy ones must still get everything and all threads end
                k = rng.randrange(len(case["observers"]) + 1)
                case["observers"] = list(case["observers"][:k]) + ["faulty"] + list(case["observers"][k:])
                case["observer_timeouts"] = list(case["observer_timeouts"][:k]) + [0.2] + list(case["observer_timeouts"][k:])
                case["observer_dies_at"] = rng.randint(1, 3)
            one(ctx, case, tmpdir)
            if ctx.phase_over(0.45):
                break
        rng = ctx.rng("lines")
        for i in range(conf["line_runs"]):
            case = P.random_pipeline_case(rng, max_windows=20 if i % 4 == 0 else 10, line_mode=(True, "instr", "all", "instr")[i % 4])
            one(ctx, case, tmpdir)
            if ctx.phase_over(0.65):
                break
        if ctx.shard in (8, 14) or ctx.tier == "thorough":
            main_thread_returns(ctx, tmpdir)
        systematic(ctx, conf, tmpdir)
        if ctx.shard == 2 or (ctx.tier == "thorough" and ctx.shard < 6):
            marathons(ctx, tmpdir)
        stress(ctx, conf, tmpdir)
    finally:
        shutil.rmtree(tmpdir, ignore_errors=True)


def main_thread_returns(ctx, tmpdir):
    """the program's main thread returns right after start_all(): the observers still process every detection"""
    rng = ctx.rng("main-returns")
    case = P.random_pipeline_case(rng, max_windows=40)
    case.update(uc=None if case["channels"] == 1 else case["uc"])
    case["v"] = (list(case["v"]) or [1, 1, 0]) * 3
    case["v"] = case["v"][:60] + [1, 1, 1]
    case["partial"] = 0
    case.pop("hop", None)
    built = AC.build_audio(case)
    if built is None:
        return
    data, _ = built
    expected = P.split_reference(data, case)
    res = P.run_main_returns_child(case, data, tmpdir)
    if "inconclusive" in res:
        ctx.count("inconclusive_runs")
        return
    ctx.count("programs_whose_main_thread_returned_after_start_all")
    ctx.case(stable_hash(["main-returns", P.case_json(case)["v"], case["rate"]]), bool(expected))
    lines = [ln.split() for ln in res["stdout"].splitlines() if ln.strip()]
    want = [[str(i), "%.3f" % s, "%.3f" % e] for i, s, e, _ in expected]
    if res["rc"] != 0 or lines != want:
        ctx.violation("detections-lost-when-the-main-thread-returns-after-start_all",
                      {"case": P.case_json(case), "exit_status": res["rc"], "printed": lines[:10], "expected": want[:10], "stderr": res["stderr"][-300:]})


def replay(ctx, case):
    tmpdir = tempfile.mkdtemp(prefix="vf-c12-")
    try:
        one(ctx, P.case_from_json(case), tmpdir)
    finally:
        shutil.rmtree(tmpdir, ignore_errors=True)


def inconclusive(merged, tier):
    c = merged["counters"]
    _timed = ["monitor never observed timeouts_fired"] if c.get("timed_waits_offered", 0) and not c.get("timeouts_fired", 0) else []  # (an implementation whose waits carry no timeout offers none to fire)
    need = ["scheduled_runs", "messages_checked", "context_switches", "line_mode_runs", "instruction_mode_runs", "all_module_line_mode_runs", "line_preemptions",
            "stress_runs", "stress_messages_checked", "systematic_schedules", "systematic_pipelines_fully_enumerated", "observers_checked_rec", "observers_checked_print",
            "observers_checked_regionsaver", "observers_checked_joiner", "runs_with_stream_saver", "programs_whose_main_thread_returned_after_start_all", "runs_over_an_overlapping_reader", "runs_with_long_bursts_of_detections", "runs_with_a_logger", "observers_that_died_mid_stream", "runs_with_a_failing_close", "runs_started_tokenizer_first", "runs_with_blocking_observer_waits", "runs_with_a_command_observer", "timeout_marathon_runs", "runs_with_more_than_10000_detections"] + ["strategy_" + s for s in P.S.NAMES]
    out = [f"monitor never observed {k}" for k in need if c.get(k, 0) == 0] + _timed
    if c.get("inconclusive_runs", 0) > max(3, c.get("scheduled_runs", 0) // 50):
        out.append(f"{c['inconclusive_runs']} runs hit a step/wall cap")
    return out


def evidence_extra(merged, tier):
    c = merged["counters"]
    return {"systematic_core": f"all schedules with <= {TIERS[tier]['systematic_deviations']} deviations for {c.get('systematic_pipelines_fully_enumerated', 0)} tiny pipelines ({c.get('systematic_schedules', 0)} schedules)",
            "distinct_decision_traces": merged["distinct_nontrivial"], "scheduler_steps": c.get("steps", 0),
            "context_switches": c.get("context_switches", 0), "queue_wait_timeouts_fired": c.get("timeouts_fired", 0),
            "max_queue_depth_seen": c.get("max:queue_depth", 0), "workers_py_lines_preempted_at": c.get("max:workers_py_lines_seen", 0)}
