"""C07 - a window is active exactly when its log energy reaches the threshold."""

import math
import random

from auditok.util import AudioEnergyValidator

from .. import audiocommon as AC
from ..gen import audio as A
from ..models import energy as E
from ..monitors.validator import ValidatorMonitor, scalar_energy

ID = "C07"
LEVEL = "exploration"
TIERS = {"quick": {"shards": 16, "budget_s": 120, "windows": 1500, "split_cases": 40},
         "thorough": {"shards": 16, "budget_s": 900, "windows": 60000, "split_cases": 2500}}
RULE = ("AudioEnergyValidator.is_valid run on generated windows (widths 1/2/4 incl. extremes -2^(8w-1) and 2^(8w-1)-1, 1-4 "
        "channels, 1-64 samples, all selectors None/'any'/'mix'/'avg'/'average'/int incl. negative) x thresholds.  Oracle "
        "ENERGY (struct decode, Fraction mean square): (1) observed energy (recorded at auditok.signal.calculate_energy) "
        "within 1e-9 dB of the model; (2) verdict == (model_dB >= thr) outside a 1e-9 band; (3) boundary: thr set to the "
        "implementation's own observed energy and to nextafter above/below must give True/False/True, plus exact cases "
        "(amplitude 10^k at thr 20k, digital silence at -200); (4) monotone in the threshold; (5) ValueError for "
        "out-of-range index / unknown name iff channels>1; single channel ignores the selector; (6) in situ: every verdict "
        "taken inside split() on synthesized audio is checked by the passive monitor.  Non-trivial = window with >=1 "
        "non-zero sample; distinct = distinct (bytes, width, channels, selector).")
ASSUMPTIONS = [
    "math.log10 on big integers is accurate to well below 1e-12 (model error budget)",
    "boundary decisions are judged against the implementation's own observed energy, not against libm",
    "held means: held on the executions listed in coverage",
]
SELECTORS_MULTI = (None, "any", "mix", "avg", "average")


def cancelling_window(rng, width, channels):
    """every multi-channel sample adds up to exactly zero (a balanced pair next to unused channels, c2 = -(c0 + c1), ...): the
    average channel is digital silence, whatever the amplitudes"""
    lim_hi = A.LIM[width]
    n = rng.choice((1, 2, 5, 16, 33))
    samples = []
    for _ in range(n):
        vals = [rng.randint(-(lim_hi // channels), lim_hi // channels) for _ in range(channels - 1)]
        if rng.random() < 0.3:
            vals = [rng.choice((lim_hi // 2, -(lim_hi // 2), lim_hi // 3, 1))] + [0] * (channels - 2)
        vals.append(-sum(vals))
        rng.shuffle(vals)
        samples += vals
    return A.pack(samples, width), n


def gen_window(rng, width, channels):
    lim_hi = A.LIM[width]
    lim_lo = -lim_hi - 1
    n = rng.choice((1, 1, 2, 3, 4, 5, 8, 16, 33, 64))
    style = rng.random()
    samples = []
    scale = rng.choice((1, 2, 10, 100, lim_hi // 100 or 1, lim_hi // 3, lim_hi))
    for i in range(n):
        for c in range(channels):
            if style < 0.15:
                x = rng.choice((lim_lo, lim_hi, 0, -1, 1))
            elif style < 0.25:
                x = 0
            elif style < 0.45:
                # channels that disagree: one loud, others quiet / cancelling
                x = (scale if c == i % channels else 0) * rng.choice((1, -1))
            elif style < 0.6:
                x = scale * (1 if c % 2 == 0 else -1)  # cancelling pairs: any != mix
            else:
                x = rng.randint(max(lim_lo, -scale), min(lim_hi, scale))
            samples.append(x)
    return A.pack(samples, width), n


def verdict(validator, data):
    return bool(validator.is_valid(data))


def check_window(ctx, mon_state, rng, width, channels, data, uc):
    case = {"width": width, "channels": channels, "uc": uc, "data": data.hex()}
    model_db = E.window_db(data, width, channels, uc)
    nontrivial = any(data)
    ctx.case((data, width, channels, repr(uc)), nontrivial)
    ctx.count("windows")
    if data and rng.random() < 0.12:
        # other users of the same bytes object decode it and scribble over THEIR arrays (normalisation in place, zeroing):
        # what the validator judges is the window, not somebody's working copy
        import numpy as np

        import auditok
        import auditok.signal as SG

        ctx.count("windows_whose_decoded_copies_were_modified_in_place")
        try:
            for arr in (SG.to_array(data, width, channels), auditok.AudioRegion(data, 16000, width, channels).numpy()):
                if isinstance(arr, np.ndarray) and arr.flags.writeable:
                    arr[...] = 0
        except Exception as exc:
            ctx.violation("decoding-a-window-raises:" + type(exc).__name__, {"case": case, "exception": repr(exc)[:200]})
            return
    # first call at an arbitrary threshold to learn the implementation's own energy
    thr0 = rng.uniform(-10, 190)
    mon_state["last"] = None
    v = AudioEnergyValidator(thr0, width, channels, use_channel=uc)
    r0 = verdict(v, data)
    impl_db = mon_state["last"]
    if impl_db is not None:
        if abs(impl_db - model_db) > 1e-9:
            # What the hook saw is not the value behind this verdict (an implementation may compute energies per channel and
            # stop early, in another unit, or not through this function at all).  The statement is about DECISIONS: an energy
            # that is really wrong shows in the decisions below; the observed value is only trusted - for the exact-boundary
            # cases - when it agrees with the model.
            ctx.count("energy_observations_not_usable")
            impl_db = None
        else:
            ctx.count("energy_values_observed")
    ths = [thr0, model_db + 1e-6, model_db - 1e-6, model_db + 3, model_db - 3, -200.0, -201.0, 0.0, 50.0, 300.0]
    ths += [rng.uniform(model_db - 40, model_db + 40) for _ in range(3)]
    results = []
    cloner = None
    if rng.random() < 0.15:
        # the validator in use is a copy of a configured one (copy / deepcopy / a pickle round trip where that is possible)
        import copy
        import pickle

        def _pickled(v_):
            try:
                return pickle.loads(pickle.dumps(v_))
            except Exception:
                return copy.deepcopy(v_)

        cloner = rng.choice((copy.copy, copy.deepcopy, _pickled))
        ctx.count("windows_judged_by_copies_of_a_validator")
    for thr in ths:
        if abs(model_db - thr) <= 1e-9:
            continue
        val_ = AudioEnergyValidator(thr, width, channels, use_channel=uc)
        if cloner is not None:
            try:
                val_ = cloner(val_)
            except Exception:
                # no statement says that a validator can be copied (it may hold a lock, a file, ...): the original is judged then
                ctx.count("validators_that_refuse_to_be_copied")
        r = verdict(val_, data)
        results.append((thr, r))
        ctx.count("decisions_checked")
        if r != (model_db >= thr):
            key = "window-above-threshold-judged-inactive" if model_db >= thr else "window-below-threshold-judged-active"
            ctx.violation(key, {"case": case, "thr": thr, "model_db": model_db, "impl_db": impl_db})
            return
    # the same window handed over in other bytes-like containers must be judged the same
    if len(data) and rng.random() < 0.3:
        import array

        import numpy as np

        thr_c = model_db - 2.0 if rng.random() < 0.5 else model_db + 2.0
        want = model_db >= thr_c
        conts = {"bytearray": bytearray(data), "memoryview": memoryview(data), "array": array.array({1: "b", 2: "h", 4: "i"}[width], data),
                 "numpy": np.frombuffer(data, dtype={1: np.int8, 2: np.int16, 4: np.int32}[width]),
                 "numpy_uint8_view": np.frombuffer(data, dtype=np.uint8)}  # raw bytes held as a byte array: still PCM of the stated width
        conts["memoryview_of_array"] = memoryview(conts["array"])
        for cname, obj in conts.items():
            ctx.count("container_variants_checked")
            try:
                r = verdict(AudioEnergyValidator(thr_c, width, channels, use_channel=uc), obj)
            except Exception as exc:
                ctx.violation(f"window-container-{cname}-raises:{type(exc).__name__}", {"case": case, "exception": repr(exc)[:200]})
                return
            if r != want:
                ctx.violation("verdict-depends-on-window-container", {"case": case, "container": cname, "thr": thr_c, "model_db": model_db, "got": r})
                return
    # monotone in the threshold
    results.sort()
    seen_false = False
    for thr, r in results:
        if not r:
            seen_false = True
        elif seen_false:
            ctx.violation("not-monotone-in-threshold", {"case": case, "results": results})
            return
    # thresholds given as NumPy scalars of lower precision mean exactly their own value.  Built around the implementation's own
    # observed energy when it can be observed (then "exactly at" is decidable), around the model's otherwise
    base = impl_db if impl_db is not None else model_db
    if base > -199:
        import numpy as np

        for ty in (np.float32, np.float16, np.float64):
            for cand in (base, base + 1e-4, base - 1e-4, base + 0.37, base - 0.37):
                thr_np = ty(cand)
                t = float(thr_np)
                if not np.isfinite(thr_np):
                    continue
                in_band = abs(t - model_db) <= 1e-9
                if in_band and (impl_db is None or t != impl_db):
                    continue  # undecidable without the implementation's own value
                ctx.count("numpy_scalar_thresholds_checked")
                r = verdict(AudioEnergyValidator(thr_np, width, channels, use_channel=uc), data)
                want = (impl_db >= t) if impl_db is not None and in_band else (model_db >= t)
                if r != want:
                    ctx.violation("numpy-scalar-threshold-compared-in-lower-precision", {"case": case, "thr": t, "thr_type": ty.__name__, "impl_db": impl_db, "model_db": model_db, "got": r})
                    return
    # boundary against the implementation's own energy
    if impl_db is not None and impl_db > -199:
        for thr, exp, name in ((impl_db, True, "at"), (math.nextafter(impl_db, math.inf), False, "just-above"),
                               (math.nextafter(impl_db, -math.inf), True, "just-below")):
            r = verdict(AudioEnergyValidator(thr, width, channels, use_channel=uc), data)
            ctx.count("boundary_decisions_checked")
            if r != exp:
                if name == "just-above":
                    # one ulp above the value observed on one evaluation path: an implementation that reaches the same energy
                    # by another route (another channel, another order of summation) may legitimately land one ulp higher -
                    # and the real-valued energy is not decided at that scale.  Observed, not judged.
                    ctx.count("one_ulp_above_observed_energy_judged_active")
                    continue
                ctx.violation(f"boundary-threshold-{name}-energy-wrong", {"case": case, "thr": thr, "impl_db": impl_db, "got": r})
                return


def exact_cases(ctx):
    """energies that are exact in any sane evaluation: amplitude 10^k -> 20k dB; digital silence -> -200 dB."""
    for width in (1, 2, 4):
        for channels in (1, 2, 3):
            for k in range(0, 10):
                a = 10 ** k
                if a > A.LIM[width]:
                    continue
                for n in (1, 2, 7):
                    data = A.pack([a if i % 2 == 0 else -a for i in range(n * channels)], width)
                    for uc in ((None, 0, -1) if channels > 1 else (None,)):
                        case = {"width": width, "channels": channels, "uc": uc, "data": data.hex(), "exact_db": 20.0 * k}
                        ctx.case((data, width, channels, repr(uc), "exact"), True)
                        ctx.count("exact_boundary_cases")
                        if not verdict(AudioEnergyValidator(20.0 * k, width, channels, use_channel=uc), data):
                            ctx.violation("exact-energy-equal-to-threshold-judged-inactive", {"case": case})
                        if verdict(AudioEnergyValidator(math.nextafter(20.0 * k, math.inf) + 1e-9, width, channels, use_channel=uc), data):
                            ctx.violation("exact-energy-below-threshold-judged-active", {"case": case})
            z = bytes(width * channels * 5)
            case = {"width": width, "channels": channels, "data": z.hex(), "silence": True}
            for uc in ((None, "mix", 0) if channels > 1 else (None,)):
                ctx.count("silence_floor_cases")
                if not verdict(AudioEnergyValidator(-200.0, width, channels, use_channel=uc), z):
                    ctx.violation("digital-silence-at-floor-threshold-judged-inactive", {"case": dict(case, uc=uc)})
                if verdict(AudioEnergyValidator(-199.999, width, channels, use_channel=uc), z):
                    ctx.violation("digital-silence-above-floor-judged-active", {"case": dict(case, uc=uc)})


def huge_window_cases(ctx):
    """one analysis window of more than 2**20 samples per channel, energy unevenly spread."""
    import random as _r

    rng = _r.Random(5)
    for width, channels in ((2, 1), (1, 2)):
        n = 2 ** 20 + rng.randint(1000, 300000)
        head = n * 2 // 3
        lim = A.LIM[width]
        quiet = A.pack([0] * channels, width)
        loud = A.pack([lim // 2 if c == 0 else 0 for c in range(channels)], width) + A.pack([-(lim // 2) if c == 0 else 0 for c in range(channels)], width)
        data = quiet * head + loud * ((n - head) // 2) + quiet * ((n - head) % 2)
        model_db = E.window_db(data, width, channels, None)
        ctx.case(("huge-window", width, channels, n), True)
        ctx.count("huge_windows_checked")
        for thr in (model_db - 0.5, model_db + 0.5):
            r = verdict(AudioEnergyValidator(thr, width, channels), data)
            if r != (model_db >= thr):
                ctx.violation("window-above-threshold-judged-inactive" if model_db >= thr else "window-below-threshold-judged-active",
                              {"case": {"width": width, "channels": channels, "nsamples": n, "huge_window": True}, "thr": thr, "model_db": model_db})


def constructor_cases(ctx):
    for width in (1, 2, 4):
        for channels in (1, 2, 3, 4):
            data = A.pack(list(range(1, channels * 3 + 1)), width)
            base = verdict(AudioEnergyValidator(5.0, width, channels), data)
            for uc in (-6, -5, -4, -3, -2, -1, 0, 1, 2, 3, 4, 5, "any", "mix", "avg", "average", "left", "", "ANY", "max"):
                ctx.count("constructor_cases")
                ctx.evaluations += 1
                try:
                    E.norm_selector(uc, channels)
                    exp_err = False
                except ValueError:
                    exp_err = True
                try:
                    v = AudioEnergyValidator(5.0, width, channels, use_channel=uc)
                    got = "ok"
                except ValueError:
                    got = "ValueError"
                except Exception as exc:
                    got = type(exc).__name__
                case = {"ctor": [width, channels, uc]}
                if got not in ("ok", "ValueError"):
                    ctx.violation("selector-raises-" + got, {"case": case})
                elif exp_err and got == "ok":
                    ctx.violation("invalid-selector-accepted", {"case": case})
                elif not exp_err and got != "ok":
                    ctx.violation("valid-selector-rejected", {"case": case})
                elif got == "ok" and channels == 1:
                    ctx.count("single_channel_selector_ignored_cases")
                    if verdict(v, data) != base:
                        ctx.violation("single-channel-selector-changes-verdict", {"case": case})


def in_situ(ctx, conf):
    """verdicts taken inside split(): checked by the passive monitor."""
    rng = ctx.rng("insitu")
    state = {}

    def on_verdict(args, data, result, energies):
        if args is None:
            return
        ctx.count("in_situ_verdicts")
        # judged against what the CALLER of split() asked for (threshold, selector), not against what the validator was built with
        req = state["req"]
        db = E.window_db(bytes(data), req["width"], req["channels"], req["uc"])
        if abs(db - req["thr"]) > 1e-9 and bool(result) != (db >= req["thr"]):
            ctx.violation("in-situ-verdict-differs-from-model", {"case": state.get("case"), "requested_thr": req["thr"], "validator_built_with": args,
                                                                 "model_db": db, "window": bytes(data).hex()[:200], "got": bool(result)})

    import auditok

    with ValidatorMonitor(on_verdict) as mon:
        for i in range(conf["split_cases"]):
            case = AC.random_split_case(rng, max_windows=30)
            built = AC.build_audio(case)
            if built is None:
                continue
            data, verdicts = built
            state["case"] = AC.case_json(case)
            state["req"] = {"thr": case["thr"], "uc": case["uc"], "width": case["width"], "channels": case["channels"]}
            if case["thr"] == 0:
                ctx.count("in_situ_cases_threshold_zero")
            try:
                kw_ = AC.split_kwargs(case, long_names=bool(i % 2))
                if i % 3 == 2 and case["w"] == case["block"] / case["rate"]:
                    # the same request made on an AudioReader / Recorder input
                    cls_ = auditok.Recorder if i % 2 else auditok.AudioReader
                    rd_ = cls_(data, block_dur=case["w"], **AC.audio_kwargs(case))
                    kw_ = {k: v for k, v in kw_.items() if k not in ("analysis_window", "aw")}
                    ctx.count("in_situ_reader_inputs")
                    list(auditok.split(rd_, **kw_))
                else:
                    list(auditok.split(data, **kw_, **AC.audio_kwargs(case)))
            except Exception as exc:
                ctx.violation("exception:" + type(exc).__name__, {"case": state["case"], "exception": repr(exc)[:200]})
            ctx.case(("insitu", data, repr(sorted(state["case"].items()))), any(verdicts))
            if ctx.out_of_time():
                break
        if getattr(mon, "monitor_errors", 0):
            ctx.count("monitor_errors", mon.monitor_errors)
            ctx.note("monitor error: " + mon.last_error)


def refilled_buffer(ctx, rng, width, channels, uc, first, second):
    """ONE validator, ONE bytearray that the application refills in place (readinto, buf[:] = ...): each verdict is about what
    the buffer holds at that moment."""
    if len(first) != len(second) or not first:
        return
    db1, db2 = E.window_db(first, width, channels, uc), E.window_db(second, width, channels, uc)
    if abs(db1 - db2) < 1.0:
        return
    thr = (db1 + db2) / 2  # the two windows are on different sides of it, half a dB or more away
    case = {"op": "refilled-buffer", "width": width, "channels": channels, "uc": uc, "first": first.hex(), "second": second.hex(), "thr": thr}
    val = AudioEnergyValidator(thr, width, channels, use_channel=uc)
    buf = bytearray(first)
    view = memoryview(buf)
    ctx.count("windows_judged_in_a_buffer_refilled_in_place")
    ctx.case(repr(case), True)
    try:
        got = [verdict(val, buf)]
        buf[:] = second
        got.append(verdict(val, buf))
        got.append(verdict(val, view))
        buf[:] = first
        got.append(verdict(val, view))
        got.append(verdict(val, buf))
    except Exception as exc:
        ctx.violation("refilled-buffer-raises:" + type(exc).__name__, {"case": case, "exception": repr(exc)[:200]})
        return
    want = [db1 >= thr, db2 >= thr, db2 >= thr, db1 >= thr, db1 >= thr]
    if got != want:
        ctx.violation("verdict-is-about-an-earlier-content-of-the-buffer", {"case": case, "got": got, "expected": want})


def run_shard(ctx):
    conf = TIERS[ctx.tier]
    if ctx.shard == ctx.nshards - 1:
        # every verdict taken while the repository's own tests run, checked by the passive validator monitor
        from .. import repotests

        repotests.run(ctx, "validator")
    if ctx.shard == 0:
        exact_cases(ctx)
        constructor_cases(ctx)
    if ctx.shard == 1:
        huge_window_cases(ctx)
    rng = ctx.rng("windows")
    state = {"last": None}

    def on_verdict(args, data, result, energies):
        state["last"] = scalar_energy(energies)

    with ValidatorMonitor(on_verdict) as mon:
        for i in range(conf["windows"]):
            width = rng.choice((1, 2, 4))
            channels = rng.choice((1, 2, 2, 3, 4))
            data, n = gen_window(rng, width, channels)
            if i % 16 == 5:
                channels = rng.choice((2, 3, 3, 4, 5, 6, 7))
                data, n = cancelling_window(rng, width, channels)
                ctx.count("windows_whose_channels_cancel_exactly")
            if channels > 1 and i % 16 == 5:
                uc = rng.choice(("mix", "avg", "average"))
            elif channels > 1:
                uc = rng.choice(SELECTORS_MULTI + tuple(range(-channels, channels)))
            else:
                uc = rng.choice((None, "any", "mix", 0, -1, 3, "whatever"))
            try:
                check_window(ctx, state, rng, width, channels, data, uc)
                if i % 4 == 1 and data and uc != "whatever" and not (channels == 1 and uc == 3):
                    loud = bytes(rng.choice((0x7F, 0x60, 0x81)) if k % width == width - 1 else rng.randrange(256) for k in range(len(data)))
                    refilled_buffer(ctx, rng, width, channels, uc, data if i % 8 == 1 else bytes(len(data)), loud)
            except Exception as exc:
                ctx.violation("exception:" + type(exc).__name__,
                              {"case": {"width": width, "channels": channels, "uc": uc, "data": data.hex()}, "exception": repr(exc)[:300]})
            if (i & 63) == 0 and ctx.out_of_time():
                break
        ctx.count("hook_calculate_energy_calls", mon.energy_calls)
        ctx.count("hook_is_valid_calls", mon.calls)
    in_situ(ctx, conf)


def replay(ctx, case):
    if "ctor" in case or "exact_db" in case or case.get("silence"):
        exact_cases(ctx)
        constructor_cases(ctx)
        return
    if case.get("op") == "refilled-buffer":
        refilled_buffer(ctx, random.Random(0), case["width"], case["channels"], case["uc"], bytes.fromhex(case["first"]), bytes.fromhex(case["second"]))
        return
    if "v" in case:
        ctx.note("in-situ witness: re-running the in-situ workload")
        in_situ(ctx, TIERS["quick"])
        return
    state = {"last": None}

    def on_verdict(args, data, result, energies):
        state["last"] = scalar_energy(energies)

    with ValidatorMonitor(on_verdict):
        check_window(ctx, state, random.Random(0), case["width"], case["channels"], bytes.fromhex(case["data"]), case["uc"])


def inconclusive(merged, tier):
    if not merged["counters"].get("windows_judged_in_a_buffer_refilled_in_place"):
        return ["monitor never observed windows_judged_in_a_buffer_refilled_in_place"]
    c = merged["counters"]
    out = [f"monitor never observed {k}" for k in
           ("decisions_checked", "exact_boundary_cases", "silence_floor_cases", "constructor_cases",
            "single_channel_selector_ignored_cases", "in_situ_verdicts", "in_situ_cases_threshold_zero", "in_situ_reader_inputs", "huge_windows_checked", "numpy_scalar_thresholds_checked", "container_variants_checked", "hook_is_valid_calls", "repo_tests_validator_verdicts_checked") if c.get(k, 0) == 0]
    if c.get("monitor_errors", 0):
        out.append("the passive monitor itself raised (see notes)")
    if c.get("energy_values_observed", 0) == 0:
        # not fatal by itself: exact boundary cases still decide >= vs >, but say so
        pass
    return out


def evidence_extra(merged, tier):
    c = merged["counters"]
    return {"energy_hook_live": c.get("energy_values_observed", 0) > 0,
            "boundary_oracle": "implementation's own observed energy" if c.get("boundary_decisions_checked", 0) else "exact 10^k / silence cases only"}
