"""C13 - saved stream and joined events are byte-exact under every interleaving."""

import os
import shutil
import tempfile

import auditok

from .. import audiocommon as AC
from .. import pipeline as P
from ..ctx import stable_hash

from ..ctx import scratch_dir  # noqa: E402

ID = "C13"
LEVEL = "exploration"
TIERS = {"quick": {"shards": 16, "budget_s": 120, "runs": 100, "line_runs": 16, "systematic_pipelines": 2, "systematic_deviations": 1, "stress_runs": 8},
         "thorough": {"shards": 16, "budget_s": 900, "runs": 9000, "line_runs": 600, "systematic_pipelines": 6, "systematic_deviations": 2, "stress_runs": 150}}
RULE = ("Pipelines as the command line builds them - reader wrapped by the real StreamSaverWorker (its own writer thread), "
        "TokenizerWorker, AudioEventsJoinerWorker and RegionSaverWorker observers - run under the deterministic scheduler of C12 "
        "(strategies that make the writer lag or run ahead, timeout firings, line-level pre-emption), with cache sizes {1 byte, "
        "< block, = block, k blocks, > stream, 0}, empty and event-free streams, silence 0 / sub-sample / several windows, "
        "templates with format specs; sources with short reads; runs that are stopped; systematic core: every schedule with <= k "
        "deviations (k=1 quick, k=2 thorough) for tiny saver pipelines; a real-time stress mode with the real queue.Queue.  Oracle on files read back with stdlib wave/open: blocks produced by the wrapped reader "
        "(inner log) == blocks the tokenizer saw (outer proxy log); saved wav frames == concatenation of those blocks and header "
        "== source rate/width/channels; joiner file == split_and_join_with_silence() == events joined by round(silence*rate) zero "
        "samples (nothing before the first / after the last; empty when no event); one region file per detection, named "
        "template.format(id,start,end,duration), holding exactly that detection.  Non-trivial = >=1 block read and a file "
        "produced; distinct = distinct decision trace.")
ASSUMPTIONS = [
    "files are read back with stdlib wave/open only",
    "export to formats other than wav/raw needs ffmpeg/sox (absent): not covered",
    "held means: held on the schedules listed in coverage",
]


def check_run(ctx, case, data, res, expected, tmpdir):
    cj = P.case_json(case)
    w = {"case": cj, "trace": P.trace_summary(res)}
    for key, detail in P.verdict_problems(res):
        if key.startswith("?"):
            ctx.count("inconclusive_runs")
            ctx.note(f"inconclusive run: {key} {detail}")
            return False
        ctx.violation(key, dict(w, **detail))
        return False
    rate, width, channels = case["rate"], case["width"], case["channels"]
    bps = width * channels
    inner = res.inner_blocks
    outer = res.outer_blocks
    if case["saver"] is not None:
        ctx.count("saver_runs")
        if inner != outer:
            ctx.violation("tokenizer-saw-different-blocks-than-the-reader-produced",
                          dict(w, inner_sizes=[None if b is None else len(b) for b in inner][:30], outer_sizes=[None if b is None else len(b) for b in outer][:30]))
            return False
        blocks = [b for b in inner if b is not None]
        ctx.count("blocks_checked", len(blocks))
        path = res.holder["saver_path"]
        try:
            frames, r, sw, ch = P.wav_read(path)
        except Exception as exc:
            ctx.violation("saved-stream-unreadable", dict(w, exception=repr(exc)[:200]))
            return False
        if (r, sw, ch) != (rate, width, channels):
            ctx.violation("saved-stream-header-differs", dict(w, header=[r, sw, ch]))
            return False
        want = b"".join(blocks)
        if frames != want:
            if len(frames) < len(want) and want.startswith(frames):
                key = "saved-stream-lost-tail-blocks"
            elif len(frames) < len(want):
                key = "saved-stream-lost-blocks"
            elif len(frames) > len(want):
                key = "saved-stream-has-extra-or-duplicated-blocks"
            else:
                key = "saved-stream-blocks-out-of-order-or-altered"
            ctx.violation(key, dict(w, saved_samples=len(frames) // bps, read_samples=len(want) // bps, cache_size_sec=case["saver"]["cache_size_sec"]))
            return False
        if case.get("hop"):
            ctx.count("saver_runs_over_an_overlapping_reader")
            from ..models import frame as FR

            total = len(data) // bps
            model = [data[a * bps : b * bps] for a, b in FR.blocks(total, case["block"], case["hop"])]
            if not case.get("stop") and blocks != model:
                ctx.violation("overlapping-reader-did-not-produce-the-model-blocks", dict(w, produced=len(blocks), model=len(model)))
                return False
        elif want != data[: len(want)] or (len(want) != len(data) and not case.get("stop")):
            ctx.violation("reader-did-not-produce-the-whole-input", dict(w, produced=len(want), input=len(data)))
            return False
    for o in res.observers:
        if o.vf_kind == "joiner":
            ctx.count("joiner_files_checked")
            try:
                frames, r, sw, ch = P.wav_read(o.vf_path)
            except Exception as exc:
                ctx.violation("joiner-file-unreadable", dict(w, exception=repr(exc)[:200]))
                return False
            sil = bytes(round(case["silence"] * rate) * bps)
            want = sil.join(b for _, _, _, b in expected)
            if case.get("short_reads") or case.get("stop") or case.get("hop"):
                ref = None if not expected else want  # the API comparison needs the plain fixed-block, unstopped stream
            else:
                ref = auditok.split_and_join_with_silence(data, case["silence"], **AC.split_kwargs(case), **AC.audio_kwargs(case))
            if (ref is None) != (not expected) or (ref is not None and bytes(ref) != want):
                ctx.violation("split_and_join_with_silence-differs-from-joined-events", dict(w, ref_len=None if ref is None else len(bytes(ref)), want_len=len(want)))
                return False
            if (r, sw, ch) != (rate, width, channels):
                ctx.violation("joiner-file-header-differs", dict(w, header=[r, sw, ch]))
                return False
            if frames != want:
                key = "joiner-file-differs-from-detections"
                if expected and frames == sil + want:
                    key = "joiner-silence-before-first-event"
                elif expected and frames == want + sil:
                    key = "joiner-silence-after-last-event"
                elif len(frames) < len(want):
                    key = "joiner-file-lost-events"
                ctx.violation(key, dict(w, observer=o.vf_name, got_samples=len(frames) // bps, want_samples=len(want) // bps, silence_samples=len(sil) // bps))
                return False
            if not expected:
                ctx.count("joiner_files_with_zero_events")
        elif o.vf_kind == "regionsaver":
            ctx.count("region_dirs_checked")
            names = sorted(os.listdir(o.vf_dir))
            want_names = {}
            for i, s, e, b in expected:
                dur = len(b) / (bps * rate)
                want_names[case["template"].format(id=i, start=s, end=e, duration=dur)] = b
            if sorted(want_names) != names:
                ctx.violation("region-file-names-differ-from-template", dict(w, observer=o.vf_name, files=names[:10], expected=sorted(want_names)[:10]))
                return False
            for name, b in want_names.items():
                p = os.path.join(o.vf_dir, name)
                try:
                    if name.endswith(".wav"):
                        frames, r, sw, ch = P.wav_read(p)
                        hdr_ok = (r, sw, ch) == (rate, width, channels)
                    else:
                        with open(p, "rb") as fp:
                            frames = fp.read()
                        hdr_ok = True
                except Exception as exc:
                    ctx.violation("region-file-unreadable", dict(w, file=name, exception=repr(exc)[:200]))
                    return False
                ctx.count("region_files_checked")
                if frames != b or not hdr_ok:
                    ctx.violation("region-file-audio-differs-from-detection", dict(w, file=name, got_len=len(frames), want_len=len(b)))
                    return False
    return True


def shape_case(rng, case):
    """push the case towards the situations named in the property."""
    if rng.random() < 0.25 and case["block"] > 1:
        case["short_reads"] = rng.getrandbits(32) or 1  # blocks of varying size before the end of the stream
    if case.get("hop"):
        case.pop("short_reads", None)
    elif rng.random() < 0.1 and case["block"] > 1 and not case.get("short_reads") and not case.get("partial"):
        case["hop"] = rng.randint(1, case["block"] - 1)  # overlapping analysis windows: the saved stream is the sequence of blocks READ
    if rng.random() < 0.2 and not case.get("short_reads"):
        case["stop"] = {"after_reads": rng.randint(0, len(case["v"]) + 1), "extra_steps": rng.choice((0, 1, 3))}
    r = rng.random()
    if r < 0.08:
        case["v"] = []
        case["partial"] = 0
    elif r < 0.18:
        case["v"] = [0] * len(case["v"])
    if rng.random() < 0.12 and not case.get("short_reads") and not case.get("hop") and case.get("v"):
        # (not with overlapping windows: the pinned overlapping reader concatenates its cache with `+`, which bytes-like views
        #  do not support - a limitation outside the statements, which speak of bytes)
        case["buffer_type"] = rng.choice(("bytearray", "memoryview"))
    kinds = list(case["observers"])
    if rng.random() < 0.6 and "joiner" not in kinds:
        kinds.append("joiner")
        case["observer_timeouts"].append(rng.choice((0.0005, 0.2)))
    if rng.random() < 0.5 and "regionsaver" not in kinds:
        kinds.append("regionsaver")
        case["observer_timeouts"].append(rng.choice((0.0005, 0.2)))
    case["observers"] = kinds
    r = rng.random()
    if r < 0.3:
        # threads started by hand in another order than start_all() uses: tokenizer before its observers, the saver's writer
        # thread after the tokenizer
        case["start_order"] = ("tokenizer-first", "saver-last", "tokenizer-first+saver-last")[int(r * 10)]
    return case


def one(ctx, case, tmpdir):
    built = AC.build_audio(case)
    if built is None:
        return
    data, verdicts = built
    for f in os.listdir(tmpdir):
        p = os.path.join(tmpdir, f)
        shutil.rmtree(p) if os.path.isdir(p) else os.unlink(p)
    if "regionsaver" in case["observers"] and not case.get("stop") and not case.get("short_reads") and (case.get("sched_seed", 0) >> 3) % 4 == 0:
        # files with exactly the names this run will produce are already there (an earlier run with the same template)
        bps_ = case["width"] * case["channels"]
        names = [case["template"].format(id=i_, start=s_, end=e_, duration=len(b_) / (bps_ * case["rate"])) for i_, s_, e_, b_ in P.split_reference(data, case)]
        case = dict(case, stale_region_files=names[:1] + names[-1:], stale_files=True)
        ctx.count("runs_with_files_of_an_earlier_run_in_the_way")
    res = P.run_pipeline(case, data, tmpdir)
    if case.get("stop"):
        # a stop arrived: the files must agree with what was actually read (C14 decides the stop itself)
        ctx.count("runs_with_a_stop")
        read = P.consumed_audio(case, res.inner_blocks)
        expected = P.split_reference(read, case) if not case.get("short_reads") else [(d.id, d.start, d.end, None) for d in res.detections]
        if case.get("short_reads"):
            case = dict(case, observers=[k for k in case["observers"]])
    else:
        expected = P.split_reference(data, case)
    s = res.sched
    ctx.case(stable_hash([case["observers"], case["saver"], s.decisions]), bool(data))
    ctx.count("scheduled_runs")
    ctx.count("strategy_" + case["strategy"])
    ctx.count("steps", s.steps)
    ctx.count("context_switches", s.context_switches)
    ctx.count("timeouts_fired", s.timeouts_fired)
    ctx.count("timed_waits_offered", s.timed_waits)
    ctx.maxi("queue_depth", s.max_queue_depth)
    if case.get("short_reads"):
        ctx.count("runs_with_short_reads")
    if case.get("buffer_type"):
        ctx.count("runs_whose_blocks_are_not_bytes_objects")
    if not data:
        ctx.count("runs_on_empty_stream")
    elif not expected:
        ctx.count("runs_on_event_free_stream")
    if case.get("line_p"):
        ctx.count("line_mode_runs")
        if case.get("line_gran") == "instr":
            ctx.count("instruction_mode_runs")
            ctx.maxi("instruction_sites_seen", res.info["lines_seen"])
        elif case.get("line_scope") == "all":
            ctx.count("all_module_line_mode_runs")
            ctx.maxi("all_module_lines_seen", res.info["lines_seen"])
        ctx.count("line_preemptions", res.info["line_preemptions"])
    # did the writer lag (items still queued when the stop marker was consumed) or flush mid-stream?
    ok = check_run(ctx, case, data, res, expected, tmpdir)
    if ok and data and ctx.want_sample():
        ctx.sample({"case": {k: P.case_json(case)[k] for k in ("v", "observers", "saver", "silence", "template", "strategy")},
                    "blocks": len([b for b in res.inner_blocks if b is not None]), "detections": len(expected), "steps": s.steps,
                    "max_queue_depth": s.max_queue_depth, "timeouts_fired": s.timeouts_fired})


def systematic(ctx, conf, tmpdir):
    from ..sched import systematic as SY

    rng = ctx.rng("systematic")
    shapes = [["joiner"], ["regionsaver"], ["rec"], []]
    for n in range(conf["systematic_pipelines"]):
        observers = shapes[(ctx.shard + n) % len(shapes)]
        case = P.small_pipeline_case(rng, rng.choice((3, 4, 5)), observers, True)
        built = AC.build_audio(case)
        if built is None:
            continue
        data, _ = built
        expected = P.split_reference(data, case)

        def run_fn(strat):
            P.clean_dir(tmpdir)
            return P.run_pipeline(case, data, tmpdir, strategy=strat)

        ok = True
        for devs, strat, res in SY.enumerate_schedules(run_fn, conf["systematic_deviations"], (lambda: ctx.phase_over(0.85))):
            s = res.sched
            ctx.case(stable_hash(["sys", case["v"], observers, case["saver"], s.decisions]), bool(data))
            ctx.count("systematic_schedules")
            ctx.count("steps", s.steps)
            ctx.count("timeouts_fired", s.timeouts_fired)
            ctx.count("timed_waits_offered", s.timed_waits)
            ctx.maxi("queue_depth", s.max_queue_depth)
            if not check_run(ctx, dict(case, deviations={str(k): v for k, v in devs.items()}), data, res, expected, tmpdir):
                ok = False
                break
        if ok and SY.enumerate_schedules.last_complete:
            ctx.count("systematic_pipelines_fully_enumerated")


def stress(ctx, conf, tmpdir):
    """real threads + the real queue.Queue (the scheduler replaces the queue, this mode does not)."""
    from ..sched import stress as ST

    rng = ctx.rng("stress")
    for i in range(conf["stress_runs"]):
        case = P.random_pipeline_case(rng, max_windows=25, want_saver=True)
        built = AC.build_audio(case)
        if built is None:
            continue
        data, _ = built
        P.clean_dir(tmpdir)
        expected = P.split_reference(data, case)
        out = ST.run_real_saver(case, data, rng, tmpdir)
        ctx.count("stress_runs")
        ctx.case(stable_hash(["stress", data, repr(sorted(P.case_json(case).items()))]), bool(data))
        if out["inconclusive"]:
            ctx.count("inconclusive_runs")
            ctx.note("stress watchdog fired: " + out["inconclusive"])
            continue
        w = {"case": P.case_json(case), "mode": "real-time stress"}
        bps = case["width"] * case["channels"]
        try:
            frames, r, sw, ch = P.wav_read(out["stream"])
            jframes = P.wav_read(out["joined"])[0]
        except Exception as exc:
            ctx.violation("saved-stream-unreadable", dict(w, exception=repr(exc)[:200]))
            continue
        sil = bytes(round(case["silence"] * case["rate"]) * bps)
        if frames != data or (r, sw, ch) != (case["rate"], case["width"], case["channels"]):
            ctx.violation("saved-stream-lost-blocks" if len(frames) < len(data) else "saved-stream-blocks-out-of-order-or-altered",
                          dict(w, saved=len(frames), read=len(data)))
        elif jframes != sil.join(b for _, _, _, b in expected):
            ctx.violation("joiner-file-differs-from-detections", dict(w, got=len(jframes)))
        elif out["log"] != expected:
            ctx.violation("observer-detections-differ", dict(w, got=len(out["log"]), expected=len(expected)))
        else:
            ctx.count("stress_files_checked", 2)
        if ctx.out_of_time():
            return


def huge_backlog(ctx, tmpdir):
    """the writer thread is starved while the reader gets more than 10000 blocks ahead of it."""
    from ..sched import strategies as SS

    rng = ctx.rng("backlog")
    nblocks = 16600 + rng.randint(0, 300)
    case = P.small_pipeline_case(rng, 4, [], True)
    case.update(block=1, w=1 / 8, rate=8, width=1, channels=1, thr=20.0, min_len=1, max_len=2, max_sil=0, partial=0)
    case["v"] = [1 if (i // 7) % 2 else 0 for i in range(nblocks)]
    case["saver"] = {"cache_size_sec": rng.choice((0.0001, 10.0, 100000.0))}
    built = AC.build_audio(case)
    if built is None:
        return
    data, _ = built
    expected = P.split_reference(data, case)
    P.clean_dir(tmpdir)
    # the saver is the victim: it only runs when nobody else can
    strat = SS.Starve(rng.getrandbits(32), timeout_budget=0, victim=1)
    case["strategy"] = "starve(saver)"
    import vf.sched.harness as H_

    res = P.run_pipeline(case, data, tmpdir, strategy=strat)
    ctx.count("huge_backlog_runs")
    ctx.maxi("queue_depth", res.sched.max_queue_depth)
    ctx.maxi("blocks_read_while_the_writer_did_not_run", res.writer_backlog)
    ctx.case(stable_hash(["backlog", nblocks, case["saver"], res.sched.steps]), True)
    check_run(ctx, case, data, res, expected, tmpdir)


def big_audio(ctx, tmpdir):
    """byte-size thresholds (64 KiB, 1 MiB ...) inside the observers' or the saver's buffers: few blocks, but large ones."""
    rng = ctx.rng("big-audio")
    case = P.random_pipeline_case(rng, max_windows=10, want_saver=True)
    rate = rng.choice((16000, 44100, 48000))
    width, channels = rng.choice(((2, 1), (2, 2), (4, 2)))
    block = rate // rng.choice((10, 20))
    nwin = rng.randint(50, 90)
    v = []
    while len(v) < nwin:
        v += [1] * rng.randint(2, 9) + [0] * rng.randint(2, 5)
    case.update(rate=rate, width=width, channels=channels, block=block, w=block / rate, partial=0, uc=None, thr=45.0, random_pcm=False,
                min_len=1, max_len=rng.choice((4, 12, 40)), max_sil=rng.choice((0, 1)), drop=rng.random() < 0.5, strict=False, v=v,
                observers=["joiner", "regionsaver", "rec"], observer_timeouts=[0.2, 0.0005, 0.2], silence=rng.choice((0.25, 0.1, 1 / rate)),
                stop=None, line_p=0.0, strategy=rng.choice(("uniform", "sticky", "starve")))
    case["saver"] = {"cache_size_sec": rng.choice((0.5, 0.01, 3.0, 1000.0))}
    built = AC.build_audio(case)
    if built is None:
        return
    data, _ = built
    expected = P.split_reference(data, case)
    P.clean_dir(tmpdir)
    res = P.run_pipeline(case, data, tmpdir)
    ctx.count("big_audio_runs")
    ctx.maxi("bytes_in_one_pipeline_run", len(data))
    ctx.maxi("bytes_of_detected_audio_in_one_run", sum(len(e[3]) for e in expected))
    ctx.case(stable_hash(["big", rate, width, channels, nwin, res.sched.decisions[:200]]), bool(expected))
    check_run(ctx, dict(case, v=case["v"]), data, res, expected, tmpdir)


def sentinel_blocks(ctx, tmpdir, with_stop=False):
    """audio blocks whose CONTENT is the text of an internal message ("STOP_PROCESSING", "None", ...): they are audio."""
    import random as _random

    rng = ctx.rng("sentinel-blocks")
    for text in (b"STOP_PROCESSING", b"STOP_PROCESSING", b"None", b"\x00STOP"):
        channels = rng.choice([c for c in (1, 3, 5) if len(text) % c == 0] or [1])
        block = len(text) // channels
        case = P.random_pipeline_case(rng, max_windows=10, want_saver=True)
        nb = rng.randint(12, 30)
        case.update(rate=1500, width=1, channels=channels, block=block, w=block / 1500, partial=0, uc=None, thr=20.0, random_pcm=True,
                    min_len=1, max_len=rng.choice((2, 5)), max_sil=rng.choice((0, 1)), drop=False, strict=False, v=[1] * nb,
                    observers=["joiner", "regionsaver", "rec"], observer_timeouts=[0.2, 0.0005, 0.2], silence=rng.choice((0, 0.01)),
                    stop=None, line_p=0.0, strategy=rng.choice(("uniform", "sticky", "pct")))
        case.pop("hop", None)
        case["saver"] = {"cache_size_sec": rng.choice((0.5, 0.0001, 1000.0))}
        r2 = _random.Random(rng.getrandbits(32))
        blocks = [bytes(r2.choice((0, 1, 60, 90, 120, 200)) for _ in range(len(text))) for _ in range(nb)]
        for k in r2.sample(range(nb), 3):
            blocks[k] = text
        blocks[-1] = text  # also as the very last block
        data = b"".join(blocks)
        if with_stop:
            case["stop"] = {"after_reads": rng.randint(nb // 2, nb), "extra_steps": rng.choice((0, 2))}
        expected = P.split_reference(data, case) if not with_stop else None
        P.clean_dir(tmpdir)
        res = P.run_pipeline(case, data, tmpdir)
        ctx.count("runs_with_blocks_that_look_like_internal_messages")
        ctx.case(stable_hash(["sentinel", text.hex(), channels, res.sched.decisions[:100]]), True)
        if with_stop:
            yield case, data, res
        else:
            check_run(ctx, dict(case, data_hex=data.hex()), data, res, expected, tmpdir)


def main_thread_returns(ctx, tmpdir):
    """a program whose main thread returns right after start_all(): the files are complete all the same"""
    rng = ctx.rng("main-returns")
    case = P.random_pipeline_case(rng, max_windows=40, want_saver=True)
    case["v"] = ((list(case["v"]) or [1, 1, 0]) * 3)[:60] + [1, 1, 1]
    case["partial"] = 0
    case.pop("hop", None)
    case["silence"] = rng.choice((0, 0.1, 3 * case["block"] / case["rate"]))
    built = AC.build_audio(case)
    if built is None:
        return
    data, _ = built
    expected = P.split_reference(data, case)
    P.clean_dir(tmpdir)
    res = P.run_main_returns_child(case, data, tmpdir)
    if "inconclusive" in res:
        ctx.count("inconclusive_runs")
        return
    ctx.count("programs_whose_main_thread_returned_after_start_all")
    ctx.case(stable_hash(["main-returns", P.case_json(case)["v"], case["rate"], case["silence"]]), bool(expected))
    bps = case["width"] * case["channels"]
    w = {"case": P.case_json(case), "exit_status": res["rc"], "stderr": res["stderr"][-300:]}
    try:
        frames = P.wav_read(res["stream"])[0]
    except Exception as exc:
        frames = repr(exc)
    if frames != data:
        ctx.violation("saved-stream-incomplete-when-the-main-thread-returns-after-start_all", dict(w, saved=(len(frames) if isinstance(frames, bytes) else frames), read=len(data)))
        return
    sil = bytes(round(case["silence"] * case["rate"]) * bps)
    try:
        joined = P.wav_read(res["joined"])[0]
    except Exception as exc:
        joined = repr(exc)
    if joined != sil.join(b for _, _, _, b in expected):
        ctx.violation("joined-events-incomplete-when-the-main-thread-returns-after-start_all", dict(w, got=(len(joined) if isinstance(joined, bytes) else joined)))
        return
    names = sorted(os.listdir(res["regions"]))
    if names != sorted(f"det_{i}.wav" for i, _, _, _ in expected):
        ctx.violation("region-files-missing-when-the-main-thread-returns-after-start_all", dict(w, files=names[:10], expected=len(expected)))


def export_cases(ctx, tmpdir):
    """(a) raw export of a stream longer than 2**20 frames; (b) a target format nobody can encode here: the wav that was
    written must survive the workers (export_audio() warns, objects are dropped and collected)."""
    import gc
    import struct

    import auditok.workers as W_

    rng = ctx.rng("export")
    # (a) real threads, real queue: 2**20 + a bit frames of 16-bit stereo in 4096-sample blocks
    rate, width, channels, block = 16000, 2, 2, 4096
    nblocks = 2 ** 20 // block + 9
    unit = struct.pack("<4h", 3000, -3000, 120, -120)
    data = (unit * (block * nblocks // 2 + 1))[: block * nblocks * width * channels]
    data = data[: len(data) - 5 * width * channels]  # ragged last block
    for fname, fmt in (("big.raw", None), ("big_noext", "raw")):
        path = os.path.join(tmpdir, fname)
        reader = auditok.AudioReader(data, block_dur=block / rate, sr=rate, sw=width, ch=channels)
        saver = W_.StreamSaverWorker(reader, filename=path, export_format=fmt, cache_size_sec=rng.choice((0.0, 0.5, 30.0)))
        saver.start()
        tw = W_.TokenizerWorker(saver, [], min_dur=0.3, max_dur=5, max_silence=0.3, energy_threshold=50)
        tw.start_all()
        if fname == "big_noext":
            # the application peeks at what has been saved so far (the public `data` property) while the stream is still running
            import time as _t

            t_end = _t.monotonic() + 10.0
            while tw.is_alive() and _t.monotonic() < t_end:  # (wall clock only decides WHEN the peek happens, never a verdict)
                _t.sleep(0.005)
                try:
                    peek = saver.data
                except Exception:
                    continue  # nothing flushed yet / header not complete: the property says nothing about a half-written file
                if not peek:
                    continue
                ctx.count("saved_data_read_while_the_stream_was_still_running")
                if len(peek) < len(data):
                    ctx.count("saved_data_read_while_part_of_the_stream_was_still_to_come")
                if not data.startswith(bytes(peek)):
                    ctx.violation("data-read-mid-stream-is-not-a-prefix-of-the-audio", {"case": {"raw_export": fname}, "peeked_bytes": len(peek)})
                break
        tw.join(120)
        saver.join(120)
        ctx.count("raw_export_runs")
        ctx.case(("raw-export", fname, len(data)), True)
        if tw.is_alive() or saver.is_alive():
            ctx.count("inconclusive_runs")
            ctx.note("raw export run still alive after 120 s")
            continue
        try:
            saver.export_audio()
            got = open(path, "rb").read()
        except Exception as exc:
            ctx.violation("raw-export-raises:" + type(exc).__name__, {"case": {"raw_export": fname, "frames": len(data) // (width * channels)}, "exception": repr(exc)[:200]})
            continue
        if got != data:
            key = "exported-raw-stream-lost-tail" if data.startswith(got) else "exported-raw-stream-differs"
            ctx.violation(key, {"case": {"raw_export": fname, "frames": len(data) // (width * channels)}, "exported_bytes": len(got), "read_bytes": len(data)})
        del saver, tw, reader
    # (b)
    small = data[: 40 * block * width * channels]
    path = os.path.join(tmpdir, "stream.ogg")
    reader = auditok.AudioReader(small, block_dur=block / rate, sr=rate, sw=width, ch=channels)
    saver = W_.StreamSaverWorker(reader, filename=path)
    saver.start()
    tw = W_.TokenizerWorker(saver, [], min_dur=0.3, max_dur=5, max_silence=0.3, energy_threshold=50)
    tw.start_all()
    tw.join(60)
    saver.join(60)
    told = None
    try:
        saver.export_audio()
    except Exception as exc:  # AudioEncodingWarning: "... Audio file was saved as '<path>'"
        told = str(exc)
    del saver, tw, reader
    gc.collect()
    ctx.count("unencodable_export_runs")
    ctx.case(("unencodable-export", len(small)), True)
    kept = [f for f in os.listdir(tmpdir) if f.startswith("stream.ogg")]
    ok = False
    for f in kept:
        try:
            if P.wav_read(os.path.join(tmpdir, f))[0] == small:
                ok = True
        except Exception:
            pass
    if not ok:
        ctx.violation("saved-stream-gone-after-failed-export", {"case": {"export": "stream.ogg (no encoder installed)"}, "files_left": kept, "tool_said": (told or "")[:200]})


def timeout_marathon(ctx, tmpdir):
    """the source stalls for more than a thousand queue-wait timeouts of the writer thread before the stream goes on."""
    from ..sched import strategies as SS

    rng = ctx.rng("marathon")
    for observers in (["joiner"], ["regionsaver"]):
        case = P.small_pipeline_case(rng, 5, observers, True)
        built = AC.build_audio(case)
        if built is None:
            continue
        data, _ = built
        P.clean_dir(tmpdir)
        expected = P.split_reference(data, case)
        case["strategy"] = "marathon(1300 consecutive timeouts)"
        res = P.run_pipeline(case, data, tmpdir, strategy=SS.Marathon(rng.getrandbits(32), 1300))
        ctx.count("timeout_marathon_runs")
        ctx.count("timeouts_fired", res.sched.timeouts_fired)
        ctx.count("timed_waits_offered", res.sched.timed_waits)
        ctx.case(stable_hash(["marathon", observers, res.sched.steps]), True)
        check_run(ctx, case, data, res, expected, tmpdir)


def two_pipelines_at_once(ctx, tmpdir):
    """two independent saver pipelines alive in one process at the same time, under one scheduler."""
    import auditok.workers as W_

    from ..sched import harness as H_
    from ..sched import strategies as SS

    rng = ctx.rng("two")
    for _ in range(6 if ctx.tier == "quick" else 120):
        cases = [P.random_pipeline_case(rng, max_windows=14, want_saver=True) for _ in range(2)]
        built = [AC.build_audio(c) for c in cases]
        if any(b is None for b in built):
            continue
        P.clean_dir(tmpdir)
        holder = {}

        def script(sched):
            for k, (case, (data, _)) in enumerate(zip(cases, built)):
                rd = H_.SchedReader(data, block_dur=case["w"], **AC.audio_kwargs(case)).vf_init(sched)
                path = os.path.join(tmpdir, f"two{k}.wav")
                sv = W_.StreamSaverWorker(rd, filename=path, cache_size_sec=case["saver"]["cache_size_sec"])
                sv.vf_name = f"saver{k}"
                sv.start()
                kw = {a: b for a, b in AC.split_kwargs(case).items() if a != "analysis_window"}
                tw = W_.TokenizerWorker(sv, [], **kw)
                tw.vf_name = f"tokenizer{k}"
                holder[k] = (rd, sv, tw, path)
            for k in holder:
                holder[k][2].start_all()

        sched, info = H_.run_scheduled(script, SS.make(rng.choice(SS.NAMES), rng.getrandbits(32), rng.choice((0, 5, 20))), step_cap=60000)
        ctx.count("two_pipeline_runs")
        ctx.count("scheduled_runs")
        ctx.case(stable_hash(["two", sched.decisions]), True)
        if sched.aborted is not None:
            kind_, detail = sched.aborted
            if kind_ in ("step-cap", "wall-cap"):
                ctx.count("inconclusive_runs")
            else:
                ctx.violation(kind_ if kind_ != "non-termination" else "thread-never-terminates", {"case": {"two_pipelines": [P.case_json(c) for c in cases]}, "detail": detail})
            continue
        for k, (case, (data, _)) in enumerate(zip(cases, built)):
            try:
                frames = P.wav_read(holder[k][3])[0]
            except Exception as exc:
                ctx.violation("saved-stream-unreadable", {"case": {"two_pipelines": k}, "exception": repr(exc)[:200]})
                break
            if frames != data:
                other = built[1 - k][0]
                key = "saved-stream-holds-blocks-of-another-pipeline" if (len(frames) != len(data) or any(frames[i:i + 8] in other for i in range(0, min(len(frames), 64), 8) if frames[i:i + 8] != data[i:i + 8])) else "saved-stream-blocks-out-of-order-or-altered"
                ctx.violation(key, {"case": {"two_pipelines": [P.case_json(c) for c in cases], "file": k}, "saved": len(frames), "read": len(data)})
                break


def run_shard(ctx):
    conf = TIERS[ctx.tier]
    tmpdir = scratch_dir(ctx, "vf-c13-")
    try:
        rng = ctx.rng("runs")
        for i in range(conf["runs"]):
            case = shape_case(rng, P.random_pipeline_case(rng, max_windows=30, want_saver=(i % 4 != 3), allow_hop=True))
            one(ctx, case, tmpdir)
            if ctx.phase_over(0.35):
                break
        rng = ctx.rng("lines")
        for i in range(conf["line_runs"]):
            case = shape_case(rng, P.random_pipeline_case(rng, max_windows=16 if i % 4 == 0 else 9, want_saver=True, line_mode=(True, "instr", "all", "instr")[i % 4]))
            one(ctx, case, tmpdir)
            if ctx.phase_over(0.55):
                break
        if ctx.shard == 1 or (ctx.tier == "thorough" and ctx.shard < 6):
            huge_backlog(ctx, tmpdir)
        if ctx.shard == 5 or (ctx.tier == "thorough" and ctx.shard in (6, 7)):
            export_cases(ctx, tmpdir)
        if ctx.shard == 6 or (ctx.tier == "thorough" and ctx.shard in (8, 9)):
            timeout_marathon(ctx, tmpdir)
        if ctx.shard in (2, 11) or ctx.tier == "thorough":
            for _ in sentinel_blocks(ctx, tmpdir):
                pass
        if ctx.shard in (7, 13) or ctx.tier == "thorough":
            main_thread_returns(ctx, tmpdir)
        two_pipelines_at_once(ctx, tmpdir)
        if ctx.shard in (4, 9) or ctx.tier == "thorough":
            for _ in range(1 if ctx.tier == "quick" else 6):
                big_audio(ctx, tmpdir)
        systematic(ctx, conf, tmpdir)
        stress(ctx, conf, tmpdir)
    finally:
        shutil.rmtree(tmpdir, ignore_errors=True)


def replay(ctx, case):
    tmpdir = tempfile.mkdtemp(prefix="vf-c13-")
    try:
        one(ctx, P.case_from_json(case), tmpdir)
    finally:
        shutil.rmtree(tmpdir, ignore_errors=True)


def inconclusive(merged, tier):
    c = merged["counters"]
    _timed = ["monitor never observed timeouts_fired"] if c.get("timed_waits_offered", 0) and not c.get("timeouts_fired", 0) else []  # (an implementation whose waits carry no timeout offers none to fire)
    need = ["scheduled_runs", "saver_runs", "blocks_checked", "joiner_files_checked", "joiner_files_with_zero_events",
            "region_dirs_checked", "region_files_checked", "runs_on_empty_stream", "runs_on_event_free_stream", "runs_with_a_stop", "runs_with_short_reads",
            "big_audio_runs", "runs_whose_blocks_are_not_bytes_objects", "programs_whose_main_thread_returned_after_start_all", "runs_with_files_of_an_earlier_run_in_the_way", "runs_with_blocks_that_look_like_internal_messages", "saver_runs_over_an_overlapping_reader", "line_mode_runs", "instruction_mode_runs", "all_module_line_mode_runs", "systematic_schedules", "systematic_pipelines_fully_enumerated", "stress_runs", "stress_files_checked", "huge_backlog_runs", "raw_export_runs", "unencodable_export_runs", "two_pipeline_runs", "timeout_marathon_runs"]
    out = [f"monitor never observed {k}" for k in need if c.get(k, 0) == 0] + _timed
    if max(c.get("max:queue_depth", 0), c.get("max:blocks_read_while_the_writer_did_not_run", 0)) < 16384:
        out.append("the writer never lagged by more than 16384 blocks")
    if c.get("inconclusive_runs", 0) > max(3, c.get("scheduled_runs", 0) // 50):
        out.append(f"{c['inconclusive_runs']} runs hit a step/wall cap")
    return out


def evidence_extra(merged, tier):
    c = merged["counters"]
    return {"distinct_decision_traces": merged["distinct_nontrivial"], "scheduler_steps": c.get("steps", 0),
            "context_switches": c.get("context_switches", 0), "queue_wait_timeouts_fired": c.get("timeouts_fired", 0),
            "max_queue_depth_seen": c.get("max:queue_depth", 0)}
