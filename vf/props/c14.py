"""C14 - stopping at any moment yields a consistent prefix and a clean shutdown."""

import fcntl
import os
import random
import shutil
import signal
import subprocess
import sys
import tempfile
import time

import auditok

from .. import audiocommon as AC
from .. import pipeline as P
from ..ctx import stable_hash

from ..ctx import scratch_dir  # noqa: E402

ID = "C14"
LEVEL = "fault_enumeration"
TIERS = {"quick": {"shards": 16, "budget_s": 120, "streams": 2, "max_blocks": 12, "schedules_per_point": 3, "line_runs": 12, "sigint": 6, "systematic_pipelines": 1, "systematic_deviations": 1, "fault_runs": 8, "lagging_saver_runs": 4},
         "thorough": {"shards": 16, "budget_s": 900, "streams": 14, "max_blocks": 40, "schedules_per_point": 12, "line_runs": 300, "sigint": 64, "systematic_pipelines": 4, "systematic_deviations": 2, "fault_runs": 400, "lagging_saver_runs": 200}}
RULE = ("Fault enumeration of the stop point: for each generated stream of n blocks the scheduled main thread calls stop_all() "
        "after k source reads have started, for EVERY k in 0..n+2 (before the first read, between any two reads, after the "
        "last, after the stream ended), each at several scheduler steps inside that interval, and the interleaving of all "
        "remaining steps is explored by the seeded strategies of C12 (incl. timeout firings and line-level pre-emption); "
        "pipelines with and without the StreamSaverWorker, joiner and recording observers; systematic core: for tiny pipelines "
        "every stop point x EVERY schedule with <= k deviations from the default policy (k=1 quick, k=2 thorough); fault "
        "injection: the source raises OSError at a chosen read and the stop arrives afterwards (every thread must still end, "
        "observers hold a prefix of the detections of what was read).  Oracle: every thread DONE (no "
        "deadlock / non-termination verdict); source reads started after the stop marker was enqueued <= 1 (the read in "
        "flight); every observer's detections == split() of exactly the blocks that were read, as if the stream had ended "
        "there; saved stream is a well-formed wav holding exactly those blocks; joiner file consistent with the same "
        "detections.  Command-line level: real `python -m auditok.cmdline - -O out.wav` children on a slowly fed small pipe get "
        "SIGINT once back-pressure shows they consume stdin; exit status 0, out.wav a whole-sample prefix of what was written, "
        "printed detections == split(out.wav).  Non-trivial = stop arrived before the stream ended; distinct = distinct "
        "(stop point, decision trace).")
ASSUMPTIONS = [
    "'the moment of the stop' is the enqueue of the stop marker into the tokenizer's inbox (observed inside the queue), not the call to stop_all()",
    "one read may be in flight when the stop arrives",
    "streams fed to the command line end on a sample boundary (a stream ending mid-sample is outside every statement)",
    "SIGINT is sent only after the child demonstrably consumes its input (workers started, main loop reached): earlier interrupts hit argument parsing, which the statement does not cover",
    "held means: held on the stop points and schedules listed in coverage",
]


def check_run(ctx, case, data, res, tmpdir):
    cj = P.case_json(case)
    w = {"case": cj, "trace": P.trace_summary(res)}
    for key, detail in P.verdict_problems(res):
        if key.startswith("?"):
            ctx.count("inconclusive_runs")
            ctx.note(f"inconclusive run: {key} {detail}")
            return False
        ctx.violation(key + "-after-stop", dict(w, **detail))
        return False
    h = res.holder
    rate, width, channels = case["rate"], case["width"], case["channels"]
    bps = width * channels
    if case.get("fault_at_read") is not None and getattr(h.get("reader"), "vf_fault_raised", False):
        # the source failed before the stop: the tokenizer thread is gone and did not flush; what remains to be decided is
        # that the stop still ends every thread (checked above) and that nobody saw anything that was never detected
        ctx.count("stops_after_an_injected_source_fault")
        read = P.consumed_audio(case, res.inner_blocks)
        full = P.split_reference(read, case)
        for o in res.observers:
            if o.vf_kind == "rec":
                if o.vf_log != full[: len(o.vf_log)]:
                    ctx.violation("observer-detections-not-a-prefix-after-source-fault", dict(w, observer=o.vf_name, got=[g[:3] for g in o.vf_log][:10]))
                    return False
        return True
    if "reads_started_at_stop" not in h:
        ctx.violation("harness-never-saw-the-stop-marker", w)
        return False
    at_stop = h["reads_started_at_stop"]
    total_reads = res.reads_started
    if case.get("hop"):
        from ..models import frame as FR

        ctx.count("stops_over_an_overlapping_reader")
        nblocks_total = len(FR.blocks(len(data) // bps, case["block"], case["hop"]))
    else:
        nblocks_total = -(-len(data) // (case["block"] * bps))
    stopped_early = at_stop <= nblocks_total
    if stopped_early:
        ctx.count("stops_before_stream_end")
    if total_reads > at_stop + 1:
        ctx.violation("source-read-after-stop-was-requested", dict(w, reads_started_at_stop=at_stop, reads_total=total_reads))
        return False
    if total_reads == at_stop + 1:
        ctx.count("stops_with_a_read_in_flight")
    inner = res.inner_blocks
    outer = res.outer_blocks
    if case["saver"] is not None and [b for b in inner if b is not None] != [b for b in outer if b is not None]:
        ctx.violation("tokenizer-saw-different-blocks-than-the-reader-produced", w)
        return False
    blocks = [b for b in inner if b is not None]
    prefix = b"".join(blocks)  # what the saved stream must hold
    consumed = P.consumed_audio(case, blocks)  # what was read of the input
    if consumed != data[: len(consumed)]:
        ctx.violation("blocks-read-are-not-a-prefix-of-the-input", w)
        return False
    expected = P.split_reference(consumed, case)
    dets = [(d.id, d.start, d.end) for d in res.detections]
    exp3 = [(i, s, e) for i, s, e, _ in expected]
    ctx.count("detections_expected", len(expected))
    if dets != exp3:
        key = "detections-after-stop-differ-from-split-of-what-was-read"
        if len(dets) < len(exp3) and dets == exp3[: len(dets)]:
            key = "open-event-not-flushed-at-stop" if len(exp3) - len(dets) == 1 else "detections-lost-at-stop"
        elif len(dets) > len(exp3):
            key = "detection-refers-to-audio-never-read"
        ctx.violation(key, dict(w, detections=dets[:12], expected=exp3[:12], blocks_read=len(blocks)))
        return False
    for o in res.observers:
        if o.vf_kind == "rec":
            ctx.count("observer_logs_checked")
            if o.vf_log != expected:
                ids, exp_ids = [g[0] for g in o.vf_log], [e[0] for e in expected]
                if len(ids) != len(set(ids)):
                    key = "observer-got-detection-twice-at-stop"
                elif len(ids) < len(exp_ids):
                    key = "observer-lost-detection-at-stop"
                elif sorted(ids) == exp_ids:
                    key = "observer-got-detections-out-of-order-at-stop"
                else:
                    key = "observer-detections-differ-at-stop"
                ctx.violation(key, dict(w, observer=o.vf_name, got=[g[:3] for g in o.vf_log][:12], expected=exp3[:12]))
                return False
        elif o.vf_kind == "joiner":
            ctx.count("joiner_files_checked")
            try:
                frames, r, sw, ch = P.wav_read(o.vf_path)
            except Exception as exc:
                ctx.violation("joiner-file-unreadable-after-stop", dict(w, exception=repr(exc)[:200]))
                return False
            sil = bytes(round(case["silence"] * rate) * bps)
            if frames != sil.join(b for _, _, _, b in expected):
                ctx.violation("joiner-file-inconsistent-after-stop", dict(w, got_len=len(frames)))
                return False
    if case["saver"] is not None:
        ctx.count("saved_streams_checked")
        try:
            frames, r, sw, ch = P.wav_read(h["saver_path"])
        except Exception as exc:
            ctx.violation("saved-stream-not-a-valid-wav-after-stop", dict(w, exception=repr(exc)[:200]))
            return False
        if (r, sw, ch) != (rate, width, channels):
            ctx.violation("saved-stream-header-differs", dict(w, header=[r, sw, ch]))
            return False
        if frames != prefix:
            key = "saved-stream-lost-blocks-at-stop" if len(frames) < len(prefix) else "saved-stream-holds-blocks-never-read"
            ctx.violation(key, dict(w, saved_samples=len(frames) // bps, read_samples=len(prefix) // bps))
            return False
    return True


def one(ctx, case, data, tmpdir):
    for f in os.listdir(tmpdir):
        p = os.path.join(tmpdir, f)
        shutil.rmtree(p) if os.path.isdir(p) else os.unlink(p)
    res = P.run_pipeline(case, data, tmpdir)
    s = res.sched
    at = res.holder.get("reads_started_at_stop", -1)
    nblocks_total = -(-len(data) // (case["block"] * case["width"] * case["channels"]))
    ctx.case(stable_hash([case["stop"], case["observers"], case["saver"], s.decisions]), 0 <= at <= nblocks_total)
    ctx.count("scheduled_runs")
    ctx.count("strategy_" + case["strategy"])
    ctx.count("steps", s.steps)
    ctx.count("timeouts_fired", s.timeouts_fired)
    ctx.count("timed_waits_offered", s.timed_waits)
    ctx.count("context_switches", s.context_switches)
    ctx.seen("stop_points(reads_started_at_stop)", at)
    if case.get("line_p"):
        ctx.count("line_mode_runs")
        if case.get("line_gran") == "instr":
            ctx.count("instruction_mode_runs")
            ctx.maxi("instruction_sites_seen", res.info["lines_seen"])
        elif case.get("line_scope") == "all":
            ctx.count("all_module_line_mode_runs")
            ctx.maxi("all_module_lines_seen", res.info["lines_seen"])
        ctx.count("line_preemptions", res.info["line_preemptions"])
    ok = check_run(ctx, case, data, res, tmpdir)
    if ok and ctx.want_sample() and 0 < at <= nblocks_total:
        ctx.sample({"case": {k: P.case_json(case)[k] for k in ("v", "observers", "saver", "stop", "strategy")},
                    "reads_started_when_stop_enqueued": at, "reads_total": res.reads_started, "blocks_in_stream": nblocks_total,
                    "detections": len(res.detections), "steps": s.steps})


def enumerate_stops(ctx, conf, tmpdir):
    rng = ctx.rng("streams")
    for si in range(conf["streams"]):
        if si and ctx.phase_over(0.5):
            break  # a stream that was begun is finished (every stop point); the classes after this one keep their share
        base = P.random_pipeline_case(rng, max_windows=conf["max_blocks"], want_saver=(si % 2 == 0))
        base["v"] = base["v"][: conf["max_blocks"]]
        if not base["v"]:
            base["v"] = [1, 1, 0]
        if si % 3 == 1 and base["block"] > 1 and not base["partial"]:
            base["hop"] = rng.randint(1, base["block"] - 1)  # every stop point of an overlapping reader too
        if "rec" not in base["observers"]:
            base["observers"] = list(base["observers"]) + ["rec"]
            base["observer_timeouts"] = list(base["observer_timeouts"]) + [0.2]
        built = AC.build_audio(base)
        if built is None:
            continue
        data, _ = built
        n = len(base["v"])
        ctx.count("streams")
        for k in range(0, n + 3):
            for j in range(conf["schedules_per_point"]):
                case = dict(base)
                case["logger"] = bool((k + j) % 3 == 0)  # as --debug / --debug-file do
                case["stale_files"] = bool((k + j) % 2 == 0)  # an earlier session's files sit at the output paths
                case["stop"] = {"after_reads": k, "extra_steps": rng.choice((0, 0, 1, 2, 3, 5, 8))}
                if (k + 2 * j) % 5 == 3:
                    # the stop is asked for by an observer thread (after its first / second / ... detection), not by the main thread
                    case["stop"] = {"by": "observer", "after_detections": 1 + (k % 4 == 0), "after_reads": k, "extra_steps": 0}
                    ctx.count("stops_requested_by_an_observer_thread")
                if (k + j) % 4 == 1:
                    case["start_order"] = "tokenizer-first"
                elif (k + j) % 4 == 2:
                    case["start_order"] = ("saver-last", "tokenizer-first+saver-last")[(k // 4) % 2]
                    ctx.count("runs_whose_saver_thread_started_after_the_tokenizer")
                case["strategy"] = P.S.NAMES[(k + j) % len(P.S.NAMES)]
                case["sched_seed"] = rng.getrandbits(32)
                case["timeout_budget"] = rng.choice((0, 3, 10, 50))
                one(ctx, case, data, tmpdir)
                ctx.count("stop_points_enumerated")
            if ctx.out_of_time():
                return
        ctx.count("streams_with_every_stop_point_covered")


def systematic(ctx, conf, tmpdir):
    """every stop point x every schedule with <= k deviations, for tiny pipelines."""
    from ..sched import systematic as SY

    rng = ctx.rng("systematic")
    shapes = [(["rec"], False), (["rec"], True), (["rec", "joiner"], False), (["rec", "rec"], True)]
    for n in range(conf["systematic_pipelines"]):
        if ctx.tier == "quick" and ctx.shard % 2:
            return  # quick tier: 8 tiny pipelines in all
        observers, saver = shapes[(ctx.shard // (2 if ctx.tier == "quick" else 1) + n) % len(shapes)]
        nblocks = 3 if ctx.tier == "quick" else rng.choice((3, 4))
        base = P.small_pipeline_case(rng, nblocks, observers, saver)
        built = AC.build_audio(base)
        if built is None:
            continue
        data, _ = built
        all_ok = True
        for k in range(0, nblocks + 3):
            case = dict(base, stop={"after_reads": k, "extra_steps": 0})

            def run_fn(strat):
                P.clean_dir(tmpdir)
                return P.run_pipeline(case, data, tmpdir, strategy=strat)

            for devs, strat, res in SY.enumerate_schedules(run_fn, conf["systematic_deviations"], (lambda: ctx.phase_over(0.3))):
                s = res.sched
                at = res.holder.get("reads_started_at_stop", -1)
                ctx.case(stable_hash(["sys", case["v"], observers, saver, k, s.decisions]), 0 <= at <= nblocks)
                ctx.count("systematic_schedules")
                ctx.count("steps", s.steps)
                ctx.count("timeouts_fired", s.timeouts_fired)
                ctx.count("timed_waits_offered", s.timed_waits)
                ctx.seen("stop_points(reads_started_at_stop)", at)
                if not check_run(ctx, dict(case, deviations={str(a): b for a, b in devs.items()}), data, res, tmpdir):
                    all_ok = False
                    break
            if not all_ok or not SY.enumerate_schedules.last_complete:
                all_ok = False
                break
        if all_ok:
            ctx.count("systematic_pipelines_fully_enumerated")


def huge_stop(ctx, tmpdir):
    """the stop arrives while one worker is more than 16384 messages behind."""
    import gc

    from ..sched import strategies as SS

    rng = ctx.rng("huge")
    nblocks = 16600 + rng.randint(0, 200)
    case = P.small_pipeline_case(rng, 4, ["rec"], True)
    case.update(block=1, w=1 / 8, rate=8, width=1, channels=1, thr=20.0, min_len=1, max_len=2, max_sil=0, partial=0)
    case["v"] = [1 if (i // 5) % 2 else 0 for i in range(nblocks)]
    case["saver"] = {"cache_size_sec": 100000.0}
    case["stop"] = {"after_reads": nblocks - rng.randint(20, 80), "extra_steps": 0}
    case["strategy"] = "starve(saver)"
    built = AC.build_audio(case)
    if built is None:
        return
    P.clean_dir(tmpdir)
    res = P.run_pipeline(case, built[0], tmpdir, strategy=SS.Starve(rng.getrandbits(32), timeout_budget=0, victim=1))
    ctx.count("huge_stop_runs")
    ctx.count("scheduled_runs")
    ctx.maxi("saver_backlog_at_some_point", res.sched.max_queue_depth)
    ctx.case(stable_hash(["huge-stop", nblocks, res.sched.steps]), True)
    check_run(ctx, dict(case, v=[1, 0, 1], note=f"{nblocks} one-sample blocks"), built[0], res, tmpdir)


def lagging_observer_stop(ctx, tmpdir):
    """the stop arrives while an observer is more than a thousand detections behind, and everybody else's timed waits expire
    before it moves: nothing may be dropped on the way to a slow consumer, and it still has to be told to stop"""
    from ..sched import strategies as SS

    rng = ctx.rng("lagging-observer")
    nblocks = rng.choice((1300, 2300, 4200))
    case = P.small_pipeline_case(rng, 4, ["rec"], False)
    case.update(block=1, w=1 / 8, rate=8, width=1, channels=1, thr=20.0, min_len=1, max_len=1, max_sil=0, partial=0)
    case["v"] = [1] * nblocks
    case["stop"] = {"after_reads": nblocks - rng.randint(5, 60), "extra_steps": 0}
    case["strategy"] = "starve(observer, impatient)"
    built = AC.build_audio(case)
    if built is None:
        return
    P.clean_dir(tmpdir)
    res = P.run_pipeline(case, built[0], tmpdir, strategy=SS.Starve(rng.getrandbits(32), timeout_budget=100000, victim=1, impatient=True))
    ctx.count("lagging_observer_stop_runs")
    ctx.count("scheduled_runs")
    ctx.maxi("observer_backlog_at_some_point", res.sched.max_queue_depth)
    ctx.case(stable_hash(["lagging-observer-stop", nblocks, res.sched.steps]), True)
    check_run(ctx, dict(case, v=[1, 1, 1], note=f"{nblocks} one-sample blocks, one detection each"), built[0], res, tmpdir)


def unencodable_stop(ctx, tmpdir):
    """-O rec.ogg with no encoder installed, stopped mid-stream: the wav that was written must outlive the worker objects."""
    import gc
    import time as _t

    import auditok.workers as W_

    rng = ctx.rng("ogg")
    rate, width, channels, block = 8000, 2, 1, 400
    data = rng.randbytes(60 * block * width * channels)

    class Slow(auditok.AudioReader):
        n = 0

        def read(self):
            Slow.n += 1
            if Slow.n > 25:
                _t.sleep(0.01)
            return super().read()

    path = os.path.join(tmpdir, "rec.ogg")
    reader = Slow(data, block_dur=block / rate, sr=rate, sw=width, ch=channels)
    saver = W_.StreamSaverWorker(reader, filename=path)
    saver.start()
    tw = W_.TokenizerWorker(saver, [], min_dur=0.1, max_dur=1, max_silence=0.1, energy_threshold=40)
    tw.start_all()
    deadline = _t.monotonic() + 30
    while Slow.n < 30 and _t.monotonic() < deadline:
        _t.sleep(0.002)
    tw.stop_all()
    saver.join(30)
    told = None
    try:
        saver.export_audio()
    except Exception as exc:
        told = str(exc)
    nread = Slow.n
    del saver, tw, reader
    gc.collect()
    ctx.count("unencodable_stop_runs")
    ctx.case(("unencodable-stop", nread), True)
    kept = [f for f in os.listdir(tmpdir) if f.startswith("rec.ogg")]
    ok = False
    for f in kept:
        try:
            fr = P.wav_read(os.path.join(tmpdir, f))[0]
            if fr and data.startswith(fr):
                ok = True
        except Exception:
            pass
    if not ok:
        ctx.violation("saved-stream-gone-after-failed-export", {"case": {"export": "rec.ogg (no encoder installed), stopped mid-stream"}, "files_left": kept, "tool_said": (told or "")[:200]})


# ---- command-line level: SIGINT on a real child process ------------------------------------------
def sigint_child(ctx, rng, tmpdir, idx):
    rate = rng.choice((8000, 16000))
    width, channels = rng.choice(((2, 1), (2, 2), (1, 1))), None
    width, channels = width if isinstance(width, tuple) else (width, 1)
    bps = width * channels
    win = 0.01
    block = int(win * rate)
    # bursts of loud/quiet windows
    from ..gen import audio as A

    thr = 30.0 if width == 1 else 50.0
    pattern = []
    while len(pattern) < 400:
        pattern += [1] * rng.randint(5, 40) + [0] * rng.randint(20, 60)
    data, _ = A.synth(random.Random(idx), pattern, width, channels, block, thr, None)
    out_wav = os.path.join(tmpdir, f"out{idx}.wav")
    env = dict(os.environ, PYTHONPATH=os.environ.get("VERIF_REPO", "/repo"), PYTHONDONTWRITEBYTECODE="1")
    args = [sys.executable, "-m", "auditok.cmdline", "-", "-O", out_wav, "-r", str(rate), "-w", str(width), "-c", str(channels),
            "-a", str(win), "-n", "0.05", "-m", "0.5", "-s", "0.03", "-e", str(thr)]
    p = subprocess.Popen(args, stdin=subprocess.PIPE, stdout=subprocess.PIPE, stderr=subprocess.PIPE, env=env, bufsize=0)
    fd = p.stdin.fileno()
    try:
        fcntl.fcntl(fd, 1031, 4096)  # F_SETPIPE_SZ
    except Exception:
        pass
    try:
        pipe_sz = fcntl.fcntl(fd, 1032)
    except Exception:
        pipe_sz = 65536
    fl = fcntl.fcntl(fd, fcntl.F_GETFL)
    fcntl.fcntl(fd, fcntl.F_SETFL, fl | os.O_NONBLOCK)
    written = 0
    deadline = time.monotonic() + 60
    # feed until back-pressure proves the child is consuming: total written far beyond pipe + reader buffers
    threshold = pipe_sz + 3 * 8192 + rng.randint(0, 20000)
    threshold = min(threshold, len(data) - 4 * bps * block)
    watchdog = None
    while written < threshold:
        if time.monotonic() > deadline or p.poll() is not None:
            watchdog = f"child did not consume its input (written={written}, rc={p.poll()})"
            break
        try:
            k = rng.randint(1, 997)
            written += os.write(fd, data[written : written + k])
        except BlockingIOError:
            time.sleep(0.002)
    if watchdog:
        p.kill()
        err = p.communicate()[1][-500:]
        return {"inconclusive": watchdog + " stderr=" + err.decode("utf-8", "replace")}
    twice = idx % 3 == 2
    if twice:
        # the producer has gone quiet and the program has worked off what it got: its reading thread waits for input
        import array
        import termios

        for _ in range(1000):
            buf_ = array.array("i", [0])
            try:
                fcntl.ioctl(fd, termios.FIONREAD, buf_)
            except OSError:
                break
            if buf_[0] == 0 or p.poll() is not None:
                break
            time.sleep(0.01)
        time.sleep(0.5)
    time.sleep(rng.choice((0, 0.001, 0.01, 0.05)))
    p.send_signal(signal.SIGINT)
    if twice:
        # an impatient user: Ctrl-C again while the program is busy stopping (the producer has gone quiet, the reading thread
        # waits for input, the main thread waits for the reading thread).  The second interrupt ends the main thread; the
        # worker threads still finish what they were told to do before the process goes away.
        time.sleep(rng.choice((0.3, 0.6, 1.0)))
        if p.poll() is None:
            p.send_signal(signal.SIGINT)
            time.sleep(0.3)
    # after the interrupt: complete the current sample, then close stdin so a read in flight returns
    fcntl.fcntl(fd, fcntl.F_SETFL, fl)
    pad = (-written) % bps
    if pad:
        try:
            os.write(fd, data[written : written + pad])
            written += pad
        except OSError:
            pass
    p.stdin.close()
    p.stdin = None
    try:
        out, err = p.communicate(timeout=60)
    except subprocess.TimeoutExpired:
        p.kill()
        p.communicate()
        return {"hang": True, "written": written}
    return {"rc": p.returncode, "stdout": out.decode("utf-8", "replace"), "stderr": err.decode("utf-8", "replace")[-800:], "twice": twice,
            "written": written, "data": data, "out_wav": out_wav, "fmt": (rate, width, channels), "thr": thr, "win": win}


def check_sigint(ctx, r, idx):
    ctx.count("sigint_children")
    if r.get("inconclusive"):
        ctx.count("inconclusive_runs")
        ctx.note("sigint driver: " + r["inconclusive"][:300])
        return
    case = {"sigint_child": idx}
    if r.get("hang"):
        ctx.violation("command-line-does-not-terminate-after-interrupt", {"case": case, "written": r["written"]})
        return
    rate, width, channels = r["fmt"]
    bps = width * channels
    w = {"case": case, "rc": r["rc"], "stderr": r["stderr"][-400:], "written": r["written"]}
    if r.get("twice"):
        ctx.count("sigint_children_interrupted_twice")  # (the exit status after a second Ctrl-C is the interpreter's business ...)
        if "Fatal Python error" in r["stderr"]:
            # ... but not this: the interpreter found worker threads still at work when it shut down and aborted the process
            ctx.violation("interpreter-aborts-at-exit-with-worker-threads-still-running", w)
            return
    elif r["rc"] != 0:
        ctx.violation("command-line-exit-status-nonzero-after-interrupt", w)
        return
    try:
        frames, fr, sw, ch = P.wav_read(r["out_wav"])
    except Exception as exc:
        ctx.violation("saved-stream-not-a-valid-wav-after-interrupt", dict(w, exception=repr(exc)[:200]))
        return
    if (fr, sw, ch) != (rate, width, channels) or len(frames) % bps:
        ctx.violation("saved-stream-header-differs", dict(w, header=[fr, sw, ch]))
        return
    if frames != r["data"][: len(frames)] or len(frames) > r["written"]:
        ctx.violation("saved-stream-not-a-prefix-of-what-was-written", dict(w, saved=len(frames)))
        return
    exp = list(auditok.split(frames, 0.05, 0.5, 0.03, sr=rate, sw=width, ch=channels, aw=r["win"], eth=r["thr"]))
    lines = [ln.split() for ln in r["stdout"].splitlines() if ln.strip()]
    want = [[str(i + 1), f"{x.start:.3f}", f"{x.end:.3f}"] for i, x in enumerate(exp)]
    ctx.case(stable_hash(["sigint", idx, len(frames)]), len(frames) < len(r["data"]))
    ctx.count("sigint_children_checked")
    ctx.count("sigint_detections_checked", len(want))
    if len(frames) < r["written"]:
        ctx.count("sigint_children_stopped_with_unread_input")
    if lines != want:
        key = "printed-detections-differ-from-split-of-saved-stream"
        if len(lines) < len(want) and lines == want[: len(lines)]:
            key = "open-event-not-flushed-at-interrupt" if len(want) - len(lines) == 1 else "detections-lost-at-interrupt"
        ctx.violation(key, dict(w, printed=lines[-4:], expected=want[-4:], n_printed=len(lines), n_expected=len(want)))
        return
    if ctx.want_sample():
        ctx.sample({"sigint_child": idx, "bytes_written": r["written"], "bytes_saved": len(frames), "detections_printed": len(lines), "rc": r["rc"]})


def run_shard(ctx):
    conf = TIERS[ctx.tier]
    tmpdir = scratch_dir(ctx, "vf-c14-")
    try:
        # command-line children first (they need wall-clock time, not CPU)
        rng = ctx.rng("sigint")
        n_children = [i for i in range(conf["sigint"]) if ctx.mine(i)]
        for i in n_children:
            check_sigint(ctx, sigint_child(ctx, rng, tmpdir, i), i)
        if ctx.shard == 7 or (ctx.tier == "thorough" and ctx.shard in (8, 9, 10)):
            huge_stop(ctx, tmpdir)
        if ctx.shard == 9:
            unencodable_stop(ctx, tmpdir)
        if ctx.shard in (5, 13) or ctx.tier == "thorough":
            lagging_observer_stop(ctx, tmpdir)
        if ctx.shard in (3, 12) or ctx.tier == "thorough":
            # stops in streams whose blocks look like internal messages (the text "STOP_PROCESSING" as 15 bytes of audio)
            from . import c13 as C13

            for case_, data_, res_ in C13.sentinel_blocks(ctx, tmpdir, with_stop=True):
                ctx.count("stops_in_streams_with_blocks_that_look_like_internal_messages")
                check_run(ctx, case_, data_, res_, tmpdir)
        systematic(ctx, conf, tmpdir)
        enumerate_stops(ctx, conf, tmpdir)
        rng = ctx.rng("lines")
        for i in range(conf["line_runs"]):
            case = P.random_pipeline_case(rng, max_windows=14 if i % 4 == 0 else 8, want_stop=True, line_mode=(True, "instr", "all", "instr")[i % 4])
            if "rec" not in case["observers"]:
                case["observers"] = list(case["observers"]) + ["rec"]
                case["observer_timeouts"] = list(case["observer_timeouts"]) + [0.2]
            built = AC.build_audio(case)
            if built is None:
                continue
            one(ctx, case, built[0], tmpdir)
            if ctx.phase_over(0.7):
                break
        # the stop arrives while the stream saver is far behind the reader (its thread is starved)
        rng = ctx.rng("lagging-saver")
        from ..sched import strategies as SS

        for i in range(conf["lagging_saver_runs"]):
            case = P.random_pipeline_case(rng, max_windows=60, want_saver=True, want_stop=True, allow_hop=True)
            base_v = list(case["v"]) or [1, 1, 0]
            case["v"] = (base_v * (60 // len(base_v) + 1))[: rng.randint(30, 60)]
            case["partial"] = 0
            case["observers"] = ["rec"]
            case["observer_timeouts"] = [0.2]
            case["stop"] = {"after_reads": rng.randint(20, len(case["v"])), "extra_steps": rng.choice((0, 2))}
            case["strategy"] = "starve(saver)"
            built = AC.build_audio(case)
            if built is None:
                continue
            P.clean_dir(tmpdir)
            res = P.run_pipeline(case, built[0], tmpdir, strategy=SS.Starve(rng.getrandbits(32), timeout_budget=rng.choice((0, 5)), victim=1))
            ctx.count("lagging_saver_runs")
            ctx.maxi("saver_backlog_at_some_point", res.sched.max_queue_depth)
            ctx.case(stable_hash(["lag", case["stop"], res.sched.decisions]), True)
            ctx.count("scheduled_runs")
            check_run(ctx, case, built[0], res, tmpdir)
            if ctx.phase_over(0.85):
                break
        rng = ctx.rng("faults")
        for i in range(conf["fault_runs"]):
            # a source that raises in the middle of the stream, then the stop: every thread must still end
            case = P.random_pipeline_case(rng, max_windows=14, want_stop=True, allow_hop=True)
            nb = len(case["v"])
            case["fault_at_read"] = rng.randint(1, max(1, nb))
            case["stop"] = {"after_reads": rng.randint(case["fault_at_read"], nb + 2), "extra_steps": rng.choice((0, 2, 5))}
            if "rec" not in case["observers"]:
                case["observers"] = list(case["observers"]) + ["rec"]
                case["observer_timeouts"] = list(case["observer_timeouts"]) + [0.2]
            built = AC.build_audio(case)
            if built is None:
                continue
            one(ctx, case, built[0], tmpdir)
            if ctx.out_of_time():
                break
    finally:
        shutil.rmtree(tmpdir, ignore_errors=True)


def replay(ctx, case):
    tmpdir = tempfile.mkdtemp(prefix="vf-c14-")
    try:
        if "sigint_child" in case:
            rng = random.Random(case["sigint_child"])
            check_sigint(ctx, sigint_child(ctx, rng, tmpdir, case["sigint_child"]), case["sigint_child"])
            return
        case = P.case_from_json(case)
        built = AC.build_audio(case)
        one(ctx, case, built[0], tmpdir)
    finally:
        shutil.rmtree(tmpdir, ignore_errors=True)


def inconclusive(merged, tier):
    c = merged["counters"]
    _timed = ["monitor never observed timeouts_fired"] if c.get("timed_waits_offered", 0) and not c.get("timeouts_fired", 0) else []  # (an implementation whose waits carry no timeout offers none to fire)
    need = ["scheduled_runs", "stop_points_enumerated", "streams_with_every_stop_point_covered", "stops_before_stream_end",
            "stops_with_a_read_in_flight", "observer_logs_checked", "saved_streams_checked", "joiner_files_checked",
            "line_mode_runs", "instruction_mode_runs", "all_module_line_mode_runs", "sigint_children_checked", "systematic_schedules", "systematic_pipelines_fully_enumerated", "stops_after_an_injected_source_fault", "stops_over_an_overlapping_reader", "stops_requested_by_an_observer_thread", "stops_in_streams_with_blocks_that_look_like_internal_messages", "lagging_saver_runs", "lagging_observer_stop_runs", "huge_stop_runs", "unencodable_stop_runs"]
    out = [f"monitor never observed {k}" for k in need if c.get(k, 0) == 0] + _timed
    if c.get("inconclusive_runs", 0) > max(3, c.get("scheduled_runs", 0) // 50):
        out.append(f"{c['inconclusive_runs']} runs hit a step/wall cap or the sigint driver's watchdog")
    return out


def evidence_extra(merged, tier):
    c = merged["counters"]
    pts = merged["sets"].get("stop_points(reads_started_at_stop)", set())
    return {"fault_points": "stop_all() after k reads started, every k in 0..n+2 per stream, several scheduler steps each",
            "distinct_stop_points_seen": sorted(int(x) for x in pts)[:80],
            "streams_fully_enumerated": c.get("streams_with_every_stop_point_covered", 0),
            "scheduler_steps": c.get("steps", 0), "queue_wait_timeouts_fired": c.get("timeouts_fired", 0),
            "sigint_children": c.get("sigint_children_checked", 0)}
