"""C06 - durations given in seconds are honoured, counted in analysis windows."""

import itertools
import struct

import auditok
from auditok import AudioReader

from ..models import win as W
from ..models.seg import seg

ID = "C06"
LEVEL = "exploration"
TIERS = {"quick": {"shards": 16, "budget_s": 120, "burst_tuples": 60, "max_windows": 60},
         "thorough": {"shards": 16, "budget_s": 900, "burst_tuples": 4000, "max_windows": 400}}
RULE = ("(a) accept/reject: split() called on the full decimal grid DUR x DUR x SIL x WIN x RATE (incl. zero, negative and "
        "sub-sample windows); ValueError iff the WIN model (exact rationals, quotients within 1e-9 of an integer count as "
        "that integer) rejects.  (b) honoured counts: for accepted tuples, 16-bit mono audio made of isolated bursts of "
        "k windows (k around ceil(min_dur/w), floor(max_dur/w) and multiples) separated by silences around "
        "floor(max_silence/w); regions must equal SEG(WIN counts); crisp sub-checks with max_silence=0: a burst of exactly "
        "ceil(min_dur/w) windows is reported, one of ceil-1 is not; no region spans more than floor(max_dur/w) windows or "
        "lasts longer than max_dur+1e-9; both input styles (bytes+analysis_window, AudioReader(block_dur)).  Non-trivial = "
        "accepted tuple with >=1 region, or a rejected tuple; distinct = distinct parameter tuple (+burst pattern).")
ASSUMPTIONS = [
    "inputs are decimal literals with <=4 decimals and quotients <= 10^4; the band 5e-11 < |q-round(q)| < 1e-8, where the "
    "code's epsilon and the statement's differ, is never generated (unreachable from such decimals)",
    "w*rate is integral in the burst workload so 'window' is unambiguous; non-integral products are in the accept grid only",
    "held means: held on the executions listed in coverage",
]

DUR = [10, 30, 60.0, 0.01, 0.02, 0.03, 0.05, 0.06, 0.07, 0.09, 0.1, 0.11, 0.12, 0.14, 0.15, 0.19, 0.2, 0.21, 0.28, 0.29, 0.3, 0.35,
       0.38, 0.4, 0.45, 0.5, 0.55, 0.57, 0.6, 0.7, 0.8, 0.9, 1, 1.0, 1.1, 1.2, 1.4, 1.5, 1.9, 2, 2.3, 3, 3.3, 5, 7.5, 10]
SIL = [0, 0.0, 10, 0.01, 0.02, 0.03, 0.05, 0.06, 0.07, 0.1, 0.14, 0.15, 0.19, 0.2, 0.3, 0.38, 0.5, 0.57, 0.9, 1]
WIN = [0.01, 0.02, 0.03, 0.05, 0.07, 0.1, 0.15, 0.19, 0.2, 0.25, 0.3, 0.4, 0.5, 1, 0.001, 0.005, 0.0125, 10, 10.0, 30]
RATES = [8, 10, 100, 1000, 8000, 16000, 44100]
BAD = [0, -0.1, -1]

LOUD = struct.pack("<2h", 12000, -12000)  # ~81.6 dB, far above the default threshold 50
QUIET = b"\0\0\0\0"


def make_audio(pattern, block):
    """pattern: list of (is_loud, nwindows); block in samples (16-bit mono)."""
    parts = []
    for loud, n in pattern:
        unit = LOUD if loud else QUIET
        reps, rem = divmod(block * n, 2)
        parts.append(unit * reps + unit[: 2 * rem])
    return b"".join(parts)


def verdicts_of(pattern):
    v = []
    for loud, n in pattern:
        v.extend([1 if loud else 0] * n)
    return v


DEFAULT_WINDOW_CALLS = [0]


def call_split(data, rate, min_dur, max_dur, max_silence, w, style, **extra):
    return list(call_split_lazy(data, rate, min_dur, max_dur, max_silence, w, style, **extra))


def call_split_lazy(data, rate, min_dur, max_dur, max_silence, w, style, **extra):
    """the object split() returns, not consumed: the statement says that split() RAISES for a bad combination - a caller that
    writes `try: events = split(...) except ValueError:` must find out there, not at the first next()"""
    if style.startswith("reader"):
        src = AudioReader(data, block_dur=w, sampling_rate=rate, sample_width=2, channels=1)
        if style == "reader+aw":
            # for an AudioReader input w is the reader's block duration: a window keyword must not change the counting
            extra = dict(extra, **{("analysis_window" if int(w * 1000) % 2 else "aw"): (w * 2 if int(w * 100) % 2 else w / 2)})
        return (auditok.split(src, min_dur, max_dur, max_silence, **extra))
    if w == 0.05 and style in ("bytes", "region-method") and int(min_dur * 1e6) % 2:
        # the documented default window: the argument is simply left out
        DEFAULT_WINDOW_CALLS[0] += 1
        if style == "bytes":
            return (auditok.split(data, min_dur, max_dur, max_silence, sr=rate, sw=2, ch=1, **extra))
        return (auditok.AudioRegion(data, rate, 2, 1).split(min_dur, max_dur, max_silence, **extra))
    if style == "bytes-aw":
        return (auditok.split(data, min_dur, max_dur, max_silence, sr=rate, sw=2, ch=1, aw=w, **extra))
    if style == "region-method":
        return (auditok.AudioRegion(data, rate, 2, 1).split(min_dur, max_dur, max_silence, analysis_window=w, **extra))
    return (auditok.split(data, min_dur, max_dur, max_silence, sr=rate, sw=2, ch=1, analysis_window=w, **extra))


def accept_case(ctx, min_dur, max_dur, max_silence, w, rate):
    if any(W.in_ambiguous_band(d, w) for d in (min_dur, max_dur, max_silence) if w > 0 and d > 0):
        ctx.count("skipped_ambiguous_band")
        return
    reason = W.reject_reason(min_dur, max_dur, max_silence, w, rate)
    if w > 0 and not W.block_unambiguous(w, rate):
        ctx.count("skipped_block_size_rounding_differs")
        return
    data = make_audio([(1, 2)], max(1, W.block_size(w, rate) if w > 0 else 1))
    spelling = "bytes-aw" if (int(abs(min_dur) * 1000) + int(abs(max_dur) * 100) + rate) % 3 == 0 else "bytes"
    ctx.count("accept_grid_spelling_" + spelling)
    deferred = False
    style_ = spelling if (int(abs(max_dur) * 1000) + rate) % 4 else "region-method"
    try:
        it = call_split_lazy(data, rate, min_dur, max_dur, max_silence, w, style_)
        try:
            list(it)
            got = "accepted"
        except ValueError:
            got, deferred = "ValueError", True
    except ValueError:
        got = "ValueError"
    except Exception as exc:
        got = type(exc).__name__
    if deferred:
        ctx.violation("split-raises-only-when-the-result-is-consumed", {"case": {"accept": [min_dur, max_dur, max_silence, w, rate], "style": style_}})
    tup = [min_dur, max_dur, max_silence, w, rate]
    ctx.case(("accept", tup), True)
    ctx.count("accept_grid_cases")
    ctx.count("accept_grid_" + got)
    if reason:
        ctx.count("reject_clause:" + reason)
    if got not in ("accepted", "ValueError"):
        ctx.violation("split-raises-" + got, {"case": {"accept": tup}, "model_reject_reason": reason})
    elif reason and got == "accepted":
        ctx.violation("split-accepts-invalid-durations:" + reason.replace(" ", "-"), {"case": {"accept": tup}})
    elif not reason and got == "ValueError":
        counts = W.counts(min_dur, max_dur, max_silence, w)
        ctx.violation("split-rejects-valid-durations", {"case": {"accept": tup}, "model_counts": counts})


def burst_patterns(rng, n_min, n_max, n_sil, max_windows):
    """Isolated bursts around the critical counts."""
    ks = sorted({k for k in (1, n_min - 1, n_min, n_min + 1, n_max - 1, n_max, n_max + 1, 2 * n_max, 2 * n_max + n_min - 1,
                             2 * n_max + n_min) if 1 <= k <= max_windows})
    gaps = sorted({g for g in (1, n_sil, n_sil + 1, n_sil + 2, 2 * n_sil + 1) if g >= 1})
    pats = []
    for k in ks:
        pats.append([(0, n_sil + 2), (1, k), (0, n_sil + 2)])          # isolated burst
        pats.append([(1, k)])                                          # burst ending at end of stream
    for _ in range(4):
        p = [(0, rng.choice(gaps))] if rng.random() < 0.5 else []
        total = 0
        while total < max_windows:
            k, g = rng.choice(ks), rng.choice(gaps)
            p += [(1, k), (0, g)]
            total += k + g
        pats.append(p)
    return pats


def burst_case(ctx, rng, min_dur, max_dur, max_silence, w, rate, max_windows):
    block = W.block_size(w, rate)
    if block < 1 or Fraction_is_nonintegral(w, rate) or not W.block_unambiguous(w, rate):
        return
    if W.reject_reason(min_dur, max_dur, max_silence, w, rate):
        return
    if any(W.in_ambiguous_band(d, w) for d in (min_dur, max_dur, max_silence) if d > 0):
        return
    n_min, n_max, n_sil = W.counts(min_dur, max_dur, max_silence, w)
    if n_max > max_windows:
        return
    drop = rng.random() < 0.5
    strict = rng.random() < 0.5
    pats = burst_patterns(rng, n_min, n_max, n_sil, max_windows)
    if n_max <= 12:
        # the tokenizer's own recipes (silence straddling a cut, cut + gap + burst, event ending at end of stream ...)
        from ..gen import validity as G

        params = (n_min, n_max, n_sil, 0, 0, 0)
        rec = G.recipes(params)
        extra = [G.structured_random(rng, params, 40) for _ in range(6)] + (rec if n_max <= 6 else rng.sample(rec, min(20, len(rec))))
        for v_ in extra:
            pat, cur, n = [], None, 0
            for x in v_:
                if x == cur:
                    n += 1
                else:
                    if cur is not None:
                        pat.append((cur, n))
                    cur, n = x, 1
            if cur is not None:
                pat.append((cur, n))
            if pat:
                pats.append(pat)
    for pat in pats:
        style = rng.choice(("bytes", "bytes-aw", "reader", "reader+aw", "region-method"))
        data = make_audio(pat, block)
        ragged = 0
        if block >= 4 and pat and pat[-1][0] == 1 and rng.random() < 0.5:
            # a shorter final window at end of stream still counts as a window (cut on an even sample so it stays loud)
            ragged = 2 * rng.randint(1, (block - 1) // 2)
            data = data[: len(data) - 2 * ragged]
        v = verdicts_of(pat)
        exp = seg(v, n_min, n_max, n_sil, strict, drop)
        case = {"burst": [min_dur, max_dur, max_silence, w, rate], "pattern": pat, "drop": drop, "strict": strict, "style": style, "ragged": ragged}
        one_burst(ctx, case, data, v, exp, n_min, n_max, n_sil, block)


def Fraction_is_nonintegral(w, rate):
    from fractions import Fraction

    return (Fraction(w) * rate).denominator != 1 and abs(Fraction(w) * rate - round(Fraction(w) * rate)) > Fraction(1, 10 ** 9)


def one_burst(ctx, case, data, v, exp, n_min, n_max, n_sil, block):
    min_dur, max_dur, max_silence, w, rate = case["burst"]
    try:
        regions = call_split(data, rate, min_dur, max_dur, max_silence, w, case["style"],
                             drop_trailing_silence=case["drop"], strict_min_dur=case["strict"])
    except Exception as exc:
        ctx.case(("burst", case), True)
        ctx.violation("exception:" + type(exc).__name__, {"case": case, "exception": repr(exc)[:300]})
        return
    got = []
    for r in regions:
        s = round(r.start * rate)
        ns = len(bytes(r)) // 2
        got.append((s // block, -(-(s + ns) // block) - 1))  # first window, last window
    ctx.case(("burst", case), bool(exp))
    ctx.count("burst_cases")
    ctx.count("burst_style_" + case["style"].split("+")[0].split("-")[0])
    if case.get("ragged"):
        ctx.count("bursts_with_a_shorter_final_window")
    if case["style"] == "reader+aw":
        ctx.count("reader_with_conflicting_window_keyword")
    ctx.count("burst_regions_observed", len(got))
    ctx.count("burst_regions_expected", len(exp))
    cj = dict(case, model_counts=[n_min, n_max, n_sil])
    # crisp, model-free sub-checks
    for (a, b), r in zip(got, regions):
        if b - a + 1 > n_max:
            ctx.violation("region-spans-more-than-floor(max_dur/w)-windows", {"case": cj, "windows": [a, b]})
        if r.duration > max_dur + 1e-9:
            ctx.violation("region-longer-than-max_dur", {"case": cj, "duration": r.duration})
        run = worst = 0
        for x in v[a : b + 1]:
            run = 0 if x else run + 1
            worst = max(worst, run)
        if worst > n_sil and not (a > 0 and any(pb + 1 == a for _, pb in got)):
            ctx.violation("region-holds-more-than-floor(max_silence/w)-silent-windows", {"case": cj, "windows": [a, b], "run": worst})
    pat = case["pattern"]
    if max_silence == 0 and len(pat) == 3 and pat[1][0] == 1:
        k = pat[1][1]
        if k == n_min and n_min <= n_max:
            ctx.count("crisp_burst_of_exactly_ceil(min_dur/w)")
            if len(got) != 1 or got[0][1] - got[0][0] + 1 != k:
                ctx.violation("burst-of-exactly-ceil(min_dur/w)-windows-not-reported", {"case": cj, "observed": got})
        if k == n_min - 1:
            ctx.count("crisp_burst_of_ceil(min_dur/w)-1")
            if got:
                ctx.violation("burst-shorter-than-min_dur-reported", {"case": cj, "observed": got})
    if got != exp:
        key = "regions-differ-from-model"
        gs, es = set(got), set(exp)
        if es - gs and not gs - es:
            key = "regions-lost"
        elif gs - es and not es - gs:
            key = "regions-invented"
        ctx.violation(key, {"case": cj, "observed": got[:20], "expected": exp[:20]})
    if exp and ctx.want_sample():
        ctx.sample({"case": cj, "regions(first_window,last_window)": got})


def overlap_reader_cases(ctx, rng, n):
    """AudioReader with hop_dur < block_dur handed to split(): w is the reader's BLOCK duration."""
    for _ in range(n):
        r = rng.choice((2, 3))
        hop = rng.choice((2, 4))
        block = r * hop
        rate = 100
        n_min, n_max = sorted((rng.randint(1, 5), rng.randint(2, 8)))
        n_sil = rng.randint(0, max(0, n_max - 1))
        if n_sil >= n_max:
            n_sil = n_max - 1
        w = block / rate
        min_dur, max_dur, max_silence = (n_min - 0.5) * w, (n_max + 0.5) * w, ((n_sil + 0.5) * w if n_sil else 0)
        hops = [rng.choice((0, 0, 1)) if rng.random() < 0.5 else rng.choice((0, 1)) for _ in range(rng.randint(r, 40))]
        # lengthen runs so that several windows are loud/quiet in a row
        hops = [x for x in hops for _ in range(rng.choice((1, 2, 3)))][:60]
        data = make_audio([(x, 1) for x in hops], hop)
        nh = len(hops)
        # window i covers hops i..i+r-1; emitted while it holds a new hop
        nwin = 1 if nh <= r else nh - r + 1
        v = [1 if any(hops[i : i + r]) else 0 for i in range(nwin)]
        exp = seg(v, n_min, n_max, n_sil, False, False)
        case = {"overlap_reader": [block, hop, rate], "hops": "".join(map(str, hops)), "durations": [min_dur, max_dur, max_silence], "model_counts": [n_min, n_max, n_sil]}
        try:
            rd = AudioReader(data, block_dur=block / rate, hop_dur=hop / rate, sr=rate, sw=2, ch=1)
            regions = list(auditok.split(rd, min_dur, max_dur, max_silence))
        except Exception as exc:
            ctx.violation("exception:" + type(exc).__name__, {"case": case, "exception": repr(exc)[:200]})
            continue
        got = []
        for reg in regions:
            a = round(reg.start / (block / rate))
            nw = -(-len(bytes(reg)) // (block * 2))
            got.append((a, a + nw - 1))
        ctx.case(("overlap", repr(case)), bool(exp))
        ctx.count("overlap_reader_cases")
        ctx.count("overlap_reader_regions", len(got))
        if got != exp:
            ctx.violation("overlap-reader-regions-differ-from-model(block-duration-windows)", {"case": case, "observed": got[:12], "expected": exp[:12]})


def validator_fault_cases(ctx, rng, n):
    """A user validator that fails once (a model that times out on one window).  Whether split() lets the exception through
    or carries on, no region handed out before or after it may exceed floor(max_dur/w) windows."""
    from auditok.util import AudioEnergyValidator

    for _ in range(n):
        rate, block = rng.choice(((100, 1), (100, 2), (1000, 10)))
        w = block / rate
        n_max = rng.randint(2, 8)
        n_min = rng.randint(1, n_max)
        n_sil = rng.randint(0, n_max - 1)
        min_dur, max_dur, max_silence = (n_min - 0.5) * w, (n_max + 0.5) * w, ((n_sil + 0.5) * w if n_sil else 0)
        pattern = [(rng.random() < 0.7, rng.choice((1, 2, n_max - 1, n_max, n_max + 1, 2 * n_max))) for _ in range(rng.randint(1, 6))]
        pattern = [(a, max(1, b)) for a, b in pattern]
        data = make_audio(pattern, block)
        nwin = sum(b for _, b in pattern)
        k = rng.choice((n_max - 1, n_max, n_max + 1, rng.randint(1, nwin)))
        k = min(max(1, k), nwin)
        exc_type = rng.choice((TimeoutError, OSError, ValueError, RuntimeError))
        inner = AudioEnergyValidator(50, 2, 1)
        state = {"calls": 0}

        def flaky(win):
            state["calls"] += 1
            if state["calls"] == k:
                e = exc_type("injected validator fault")
                e.vf_injected = True
                raise e
            return inner.is_valid(win)

        style = rng.choice(("bytes", "region-method", "reader"))
        case = {"validator_fault_at_window": k, "exception": exc_type.__name__, "pattern": [[int(a), b] for a, b in pattern], "block": block, "rate": rate,
                "durations": [min_dur, max_dur, max_silence], "model_counts": [n_min, n_max, n_sil], "style": style}
        regions = []
        try:
            if style == "reader":
                gen = auditok.split(AudioReader(data, block_dur=w, sampling_rate=rate, sample_width=2, channels=1), min_dur, max_dur, max_silence, validator=flaky)
            elif style == "region-method":
                gen = auditok.AudioRegion(data, rate, 2, 1).split(min_dur, max_dur, max_silence, analysis_window=w, validator=flaky)
            else:
                gen = auditok.split(data, min_dur, max_dur, max_silence, sr=rate, sw=2, ch=1, analysis_window=w, val=flaky)
            for r in gen:
                regions.append(r)
            ctx.count("validator_faults_absorbed_by_split")
        except Exception as exc:
            if not getattr(exc, "vf_injected", False):
                ctx.violation("exception:" + type(exc).__name__, {"case": case, "exception": repr(exc)[:200]})
                continue
            ctx.count("validator_faults_that_reached_the_caller")
        ctx.case(("vfault", repr(case)), bool(regions))
        ctx.count("validator_fault_cases")
        for r in regions:
            nw = -(-len(bytes(r)) // (block * 2))
            if nw > n_max or r.duration > max_dur + 1e-9:
                ctx.violation("region-longer-than-max_dur-after-a-validator-fault", {"case": case, "windows": nw, "max_windows": n_max, "duration": r.duration})
                break


def near_integer_small_counts(ctx, rng, n):
    """a handful of windows, durations that miss a whole number of windows by 1.2e-8 .. 5e-8 windows (12x-50x outside the 1e-9 rule),
    with analysis windows from 0.5 ms to 100 ms."""
    for _ in range(n):
        k = rng.randint(2, 9)
        w, rate = rng.choice(((0.01, 100), (0.02, 100), (0.05, 100), (0.1, 10), (0.001, 1000), (0.001, 8000), (0.0005, 8000), (0.002, 1000)))
        # short windows: an absolute slack on the DURATION (instead of on the number of windows) is many times 1e-9 windows there
        d = rng.choice((1.2e-8, 2e-8, 5e-8, 2e-9, 4e-9)) if w < 0.005 else rng.choice((2e-8, 2e-9, 3e-9, 6e-9))
        which = rng.choice(("max_below", "min_above", "sil_below"))
        if which == "max_below":
            min_dur, max_dur, max_silence = w, (k - d) * w, 0          # k-1 windows allowed
        elif which == "min_above":
            min_dur, max_dur, max_silence = (k + d) * w, (3 * k) * w, 0  # k+1 windows needed
        else:
            min_dur, max_dur, max_silence = w, (3 * k) * w, (k - d) * w  # k-1 silent windows tolerated
        if any(W.in_ambiguous_band(x, w) for x in (min_dur, max_dur, max_silence) if x > 0):
            continue
        n_min, n_max, n_sil = W.counts(min_dur, max_dur, max_silence, w)
        block = W.block_size(w, rate)
        pat = [(0, 2), (1, k), (0, k), (1, 2), (0, k - 1), (1, 3), (0, k + 2)]
        v = verdicts_of(pat)
        exp = seg(v, n_min, n_max, n_sil, False, False)
        case = {"burst": [min_dur, max_dur, max_silence, w, rate], "pattern": pat, "drop": False, "strict": False, "style": rng.choice(("bytes", "reader", "region-method")), "ragged": 0}
        ctx.count("near_integer_small_count_cases")
        one_burst(ctx, case, make_audio(pat, block), v, exp, n_min, n_max, n_sil, block)


def large_quotient_cases(ctx, rng, n):
    """quotients of several hundred windows that are clearly NOT integers (|q - k| >= 2e-8, far outside the 1e-9 rule)."""
    for _ in range(n):
        k = rng.choice((100, 250, 500, 999, 1000))
        w, rate = rng.choice(((0.01, 100), (0.02, 100), (0.05, 100)))
        delta = rng.choice((2e-8, 5e-8, 1e-6))
        which = rng.choice(("min_above", "max_below"))
        if which == "min_above":
            # min_dur needs k+1 windows: a burst of exactly k windows is too short
            min_dur, max_dur = (k + delta) * w, (2 * k) * w
            pat = [(0, 2), (1, k), (0, 2)]
        else:
            # max_dur allows only k-1 windows: a burst of k windows is cut after k-1
            min_dur, max_dur = w, (k - delta) * w
            pat = [(0, 2), (1, k), (0, 2)]
        if any(W.in_ambiguous_band(d, w) for d in (min_dur, max_dur)):
            continue
        n_min, n_max, n_sil = W.counts(min_dur, max_dur, 0, w)
        block = W.block_size(w, rate)
        v = verdicts_of(pat)
        exp = seg(v, n_min, n_max, 0, False, False)
        case = {"burst": [min_dur, max_dur, 0, w, rate], "pattern": pat, "drop": False, "strict": False, "style": rng.choice(("bytes", "reader")), "ragged": 0}
        ctx.count("large_quotient_cases")
        one_burst(ctx, case, make_audio(pat, block), v, exp, n_min, n_max, 0, block)


def run_shard(ctx):
    conf = TIERS[ctx.tier]
    rng0 = ctx.rng("extra")
    overlap_reader_cases(ctx, rng0, 30 if ctx.tier == "quick" else 1500)
    validator_fault_cases(ctx, ctx.rng("vfault"), 60 if ctx.tier == "quick" else 3000)
    large_quotient_cases(ctx, rng0, 6 if ctx.tier == "quick" else 200)
    near_integer_small_counts(ctx, rng0, 30 if ctx.tier == "quick" else 1500)
    # (a) accept / reject grid (exhaustive over the literal grid, partitioned between shards)
    idx = 0
    durs = DUR + BAD
    grid_wins = WIN + BAD
    full = ctx.tier == "thorough"
    for w in grid_wins:
        for rate in RATES:
            for min_dur in (durs if full else durs[::2] + BAD):
                idx += 1
                if not ctx.mine(idx):
                    continue
                for max_dur in (durs if full else durs[1::3] + BAD[:1]):
                    for max_silence in ((SIL + [-0.1, -1e-12, -5e-324, 0.3 - 0.2 - 0.1]) if full else SIL[::3] + [-0.1, -1e-12, 0.3 - 0.2 - 0.1]):
                        accept_case(ctx, min_dur, max_dur, max_silence, w, rate)
            if ctx.out_of_time():
                return
    # (a') quotients of 1e9 .. 1e12 windows whose fractional part is far from 0 (a tolerance that scales with the quotient is wrong there)
    if ctx.shard == 3:
        for w, rate in ((1e-5, 100000), (0.001, 1000), (0.01, 100)):
            for big in (10 ** 9, 10 ** 12):
                for frac in (0.9995, 0.5, 0.0005):
                    ctx.count("huge_quotient_accept_cases")
                    accept_case(ctx, (big + frac) * w, (big + frac) * w, 0, w, rate)          # ceil > floor: reject
                    accept_case(ctx, w, (big + 1 + frac) * w, (big + frac) * w, w, rate)      # floor(sil) = big < floor(max) = big + 1: accept
                    accept_case(ctx, w, (big + frac) * w, (big + frac) * w, w, rate)          # floor(sil) == floor(max): reject
                    accept_case(ctx, (big - 1 + frac) * w, (big + frac) * w, 0, w, rate)      # ceil(min) == floor(max) = big: accept
    # (b) bursts
    rng = ctx.rng("bursts")
    # the float-artefact tuples named in the property always run (in shard 0..)
    named = [(0.07, 0.3, 0, 0.01, 100), (0.07, 0.07, 0, 0.01, 100), (0.3, 0.3, 0, 0.1, 10), (0.15, 0.3, 0.1, 0.05, 100),
             (0.57, 1.9, 0.19, 0.19, 100), (0.07, 0.21, 0.07, 0.07, 100), (0.09, 0.9, 0.03, 0.03, 100),
             (0.35, 0.7, 0.07, 0.07, 1000), (1.1, 3.3, 0, 0.1, 10), (0.06, 0.12, 0.02, 0.02, 8000), (0.14, 0.28, 0.07, 0.07, 100)]
    for i, t in enumerate(named):
        if ctx.mine(i):
            burst_case(ctx, rng, *t, conf["max_windows"])
    n = 0
    while n < conf["burst_tuples"] and not ctx.out_of_time():
        w = rng.choice(WIN[:14])
        rate = rng.choice(RATES[:6])
        min_dur, max_dur = rng.choice(DUR), rng.choice(DUR)
        max_silence = rng.choice(SIL)
        if rng.random() < 0.5:
            # multiples of the window: where float artefacts live
            k1, k2 = sorted((rng.randint(1, 30), rng.randint(1, 30)))
            min_dur, max_dur = round(k1 * w, 4), round(k2 * w, 4)
            max_silence = round(rng.randint(0, k2) * w, 4)
        if W.block_size(w, rate) * conf["max_windows"] > 200000:
            continue
        n += 1
        burst_case(ctx, rng, min_dur, max_dur, max_silence, w, rate, conf["max_windows"])
    # the default window on purpose: durations that are whole windows of 0.05 s
    for _ in range(12 if ctx.tier == "quick" else 400):
        k1, k2 = sorted((rng.randint(1, 12), rng.randint(1, 12)))
        burst_case(ctx, rng, round(k1 * 0.05 + 1e-6, 6), round(k2 * 0.05, 4), round(rng.randint(0, k2) * 0.05, 4), 0.05, rng.choice((100, 1000, 8000)), conf["max_windows"])
    ctx.count("calls_relying_on_the_default_analysis_window", DEFAULT_WINDOW_CALLS[0])


def replay(ctx, case):
    if "accept" in case:
        accept_case(ctx, *case["accept"])
        return
    min_dur, max_dur, max_silence, w, rate = case["burst"]
    block = W.block_size(w, rate)
    n_min, n_max, n_sil = W.counts(min_dur, max_dur, max_silence, w)
    pat = [tuple(p) for p in case["pattern"]]
    case = dict(case, pattern=pat)
    case.pop("model_counts", None)
    v = verdicts_of(pat)
    exp = seg(v, n_min, n_max, n_sil, case["strict"], case["drop"])
    data = make_audio(pat, block)
    if case.get("ragged"):
        data = data[: len(data) - 2 * case["ragged"]]
    one_burst(ctx, case, data, v, exp, n_min, n_max, n_sil, block)


def inconclusive(merged, tier):
    c = merged["counters"]
    return [f"monitor never observed {k}" for k in
            ("accept_grid_accepted", "accept_grid_ValueError", "burst_cases", "burst_regions_observed",
             "burst_style_bytes", "burst_style_reader", "burst_style_region", "bursts_with_a_shorter_final_window", "overlap_reader_regions", "validator_fault_cases", "calls_relying_on_the_default_analysis_window", "huge_quotient_accept_cases", "large_quotient_cases", "near_integer_small_count_cases", "reader_with_conflicting_window_keyword", "accept_grid_spelling_bytes-aw", "crisp_burst_of_exactly_ceil(min_dur/w)",
             "crisp_burst_of_ceil(min_dur/w)-1", "reject_clause:window shorter than one sample",
             "reject_clause:min_dur needs more windows than max_dur allows",
             "reject_clause:max_silence not below max_dur in windows") if c.get(k, 0) == 0]
