"""C19 - a recorder returns exactly what was read, and replays it identically."""

import io
import shutil
import tempfile

from auditok import AudioReader, Recorder

from .. import readercommon as RC
from ..models import frame as F

ID = "C19"
LEVEL = "exploration"
TIERS = {"quick": {"shards": 16, "budget_s": 120, "random": 2000, "exh_len": 8, "long": 6},
         "thorough": {"shards": 16, "budget_s": 900, "random": 100000, "exh_len": 12, "long": 400}}
RULE = ("Histories read^k, rewind, read^j, rewind, [read^i, rewind] on AudioReader(record=True) and Recorder, k from 0 to past "
        "the end, over source kinds / formats / block / hop / max_read as in C10; bounded-exhaustive core on a bytes source "
        "(length<=exh_len, block<=4, hop<=block, max_read None/0..length+1, every k and j).  Oracle (FRAME recorder clause): "
        "data before the first rewind raises; after a rewind data == visible[: end of the last block returned] (each sample "
        "once, in order, never beyond max_read); reading again replays exactly the blocks returned before, then None; later "
        "rewinds keep the same data and replay it again; non-recording readers have neither data nor rewind (also over application source classes that carry rewindable / record attributes of their own).  Live streams (stdin, a device-like user source) are also paused and resumed (close, open) between reads of the first pass: everything consumed is the recording.  Non-trivial = "
        ">=1 block read before the first rewind; distinct = distinct (case, history).")
ASSUMPTIONS = [
    "hop sizes of zero samples are outside the statement and not generated",
    "held means: held on the executions listed in coverage",
]


def run_history(ctx, case, history, tmpdir, use_recorder_class, pauses=()):
    """history = [k, j, i]: reads before 1st rewind, between 1st and 2nd, between 2nd and 3rd.
    pauses: indices of first-pass reads before which the reader is closed and opened again (streams only: a stream keeps its place)."""
    data = RC.audio_of(case)
    cj = dict(case, history=list(history), cls="Recorder" if use_recorder_class else "AudioReader(record=True)")
    if pauses:
        cj["pauses"] = sorted(pauses)
    bps = case["width"] * case["channels"]
    try:
        if use_recorder_class:
            reader, cleanup = RC.build_reader(case, data, tmpdir, cls=Recorder)
        else:
            reader, cleanup = RC.build_reader(case, data, tmpdir, record=True)
    except Exception as exc:
        ctx.violation("constructor-raises:" + type(exc).__name__, {"case": cj, "exception": repr(exc)[:300]})
        return
    step = "open"
    try:
        data = RC.effective_data(case, data)
        cands, probs = RC.expected_blocks(case, data, reader)
        reader.open()
        # data before the first rewind must raise
        step = "data-before-rewind"
        try:
            d = reader.data
            ctx.violation("data-readable-before-first-rewind", {"case": cj, "got_len": None if d is None else len(d)})
            return
        except Exception:
            ctx.count("data_before_rewind_raised")
        step = "phase-1 reads"
        first = []
        for r_ in range(history[0]):
            if r_ in pauses:
                step = "pause"
                reader.close()
                reader.open()
                ctx.count("pauses_before_the_first_rewind")
                step = "phase-1 reads"
            first.append(reader.read())
        got_blocks = [b for b in first if b is not None]
        # which candidate (visible length) is this run consistent with?
        match = None
        for vis, blocks in cands:
            exp = (blocks + [None] * history[0])[: history[0]]
            if first == exp:
                match = (vis, blocks)
                break
        ctx.case(repr(sorted(cj.items())), bool(got_blocks))
        ctx.count("histories")
        if match is None:
            ctx.violation("phase-1-blocks-differ-from-model", {"case": cj, "observed_sizes": [None if b is None else len(b) // bps for b in first]})
            return
        vis, blocks = match
        nret = len(got_blocks)
        # still no rewind: recorded data must not be readable, however much was read
        step = "data-before-rewind"
        try:
            d = reader.data
            ctx.violation("data-readable-before-first-rewind", {"case": cj, "after_reads": history[0], "got_len": None if d is None else len(d)})
            return
        except Exception:
            ctx.count("data_before_rewind_raised_after_reads")
        hop = reader.hop_size
        block = reader.block_size
        consumed = 0 if nret == 0 else min((nret - 1) * hop + block, vis)
        expected_data = data[: consumed * bps]
        replay_blocks = [data[a * bps : b * bps] for a, b in F.blocks(consumed, block, hop)]
        if replay_blocks != got_blocks:
            ctx.note("model self-check failed: replay blocks != first blocks")
        for phase, nreads in enumerate(history[1:], start=2):
            if phase == 2 and case["kind"] in ("raw_lazy", "raw_obj", "wav_lazy", "wav_obj") and case["seed"] % 3 == 0:
                # the file changes on disk after it was read (another take is recorded over it, it is replaced or deleted):
                # what was consumed is what was consumed
                import os as _os

                pth = _os.path.join(tmpdir, "in.raw" if case["kind"].startswith("raw") else "in.wav")
                if _os.path.exists(pth):
                    how = (case["seed"] // 3) % 3
                    if how == 0:
                        with open(pth, "r+b") as fp_:
                            raw_ = fp_.read()
                            fp_.seek(44 if pth.endswith(".wav") else 0)
                            fp_.write(bytes(255 - x for x in raw_[44 if pth.endswith(".wav") else 0:]))
                    elif how == 1:
                        _os.replace(pth, pth + ".old")
                        with open(pth, "wb") as fp_:
                            fp_.write(b"something else entirely")
                    else:
                        _os.unlink(pth)
                    ctx.count("source_files_changed_on_disk_before_the_rewind")
            step = f"rewind #{phase - 1}"
            rescued = []
            done_ = None
            if case["kind"] == "raw_fifo_lazy":
                # a named pipe cannot be read twice: a rewind that goes back to the source blocks for ever in open().  A helper
                # opens the writing end after a while so that the verdict is a verdict and not a watchdog
                import os as _os
                import threading as _th

                done_ = _th.Event()
                fifo_ = _os.path.join(tmpdir, "in.fifo")

                def rescue():
                    if not done_.wait(3.0):
                        try:
                            fd_ = _os.open(fifo_, _os.O_WRONLY | _os.O_NONBLOCK)
                            rescued.append(1)
                            _os.close(fd_)
                        except OSError:
                            pass

                _th.Thread(target=rescue, daemon=True).start()
            try:
                reader.rewind()
            finally:
                if done_ is not None:
                    done_.set()
            if rescued:
                ctx.violation("rewind-goes-back-to-the-source", {"case": cj, "phase": phase, "source": "a named pipe whose writer is gone"})
                return
            ctx.count("rewinds")
            step = f"data after rewind #{phase - 1}"
            rec = reader.data
            if rec != expected_data:
                key = "recorded-data-differs-from-consumed-audio"
                if rec is not None and len(rec) > len(expected_data):
                    key = "recorded-data-longer-than-consumed" if rec[: len(expected_data)] == expected_data else key
                elif rec is not None and expected_data[: len(rec)] == rec:
                    key = "recorded-data-shorter-than-consumed"
                if phase > 2:
                    key += "-after-later-rewind"
                ctx.violation(key, {"case": cj, "phase": phase, "recorded_samples": None if rec is None else len(rec) // bps,
                                    "consumed_samples": consumed})
                return
            step = f"phase-{phase} reads"
            again = [reader.read() for _ in range(nreads)]
            exp = (replay_blocks + [None] * nreads)[:nreads]
            ctx.count("replayed_reads", nreads)
            if again != exp:
                ctx.violation("replay-differs-from-first-pass" + ("-after-later-rewind" if phase > 2 else ""),
                              {"case": cj, "phase": phase, "observed_sizes": [None if b is None else len(b) // bps for b in again],
                               "expected_sizes": [None if b is None else len(b) // bps for b in exp]})
                return
        if nret and ctx.want_sample():
            ctx.sample({"case": cj, "blocks_before_rewind": nret, "recorded_samples": consumed})
        if case["hop"] not in (None, case["block"]):
            ctx.count("histories_with_overlap")
        if case["max_read_samples"] is not None:
            ctx.count("histories_with_max_read")
        if history[0] == 0:
            ctx.count("histories_rewound_after_zero_reads")
        if None in first:
            ctx.count("histories_read_past_the_end")
        elif nret and consumed < vis:
            ctx.count("histories_rewound_after_partial_read")
    except Exception as exc:
        ctx.case(repr(sorted(cj.items())), True)
        ctx.violation(f"exception-at:{step.split(' #')[0].replace(' ', '-')}:{type(exc).__name__}",
                      {"case": cj, "step": step, "exception": repr(exc)[:300]})
    finally:
        try:
            reader.close()
        except Exception:
            pass
        cleanup()


def recording_is_what_was_read(ctx, seed):
    """Sources that do not behave like a file read front to back: a device that sometimes has less than a full window ready,
    a stream that has nothing for a moment (None) and then goes on, a buffer source whose position the application moves
    between two reads.  What the reader handed out before the rewind IS the portion consumed: data is its concatenation, each
    sample once, in order, and reading again delivers the same audio."""
    import random

    from auditok.io import AudioSource, BufferAudioSource

    rng = random.Random(seed)
    scenario = rng.choice(("short_reads", "short_reads_big_windows", "transient_none", "position_moved"))
    if scenario == "short_reads_big_windows":
        rate, width, channels, block = 44100, 2, 2, rng.choice((16384, 22050, 30000))  # windows of 64 KiB and more
        nblocks = rng.randint(3, 6)
    else:
        rate, width, channels, block = rng.choice((8, 10, 100)), rng.choice((1, 2)), rng.choice((1, 2)), rng.randint(2, 8)
        nblocks = rng.randint(3, 9)
    bps = width * channels
    n = block * nblocks + rng.randint(0, block - 1)
    unit = bytes(range(1, 252))
    data = (unit * (n * bps // len(unit) + 1))[: n * bps] if n * bps > 5000 else rng.randbytes(n * bps)
    plan = sorted(set(rng.sample(range(1, nblocks + 3), rng.choice((1, 2)))))  # read() calls (1-based) at which the odd thing happens

    class Device(AudioSource):
        def __init__(self):
            super().__init__(rate, width, channels)
            self._stream = io.BytesIO(data)
            self._opened = False
            self.calls = 0

        def is_open(self):
            return self._opened

        def open(self):
            self._opened = True

        def close(self):
            self._opened = False

        def read(self, size):
            self.calls += 1
            if self.calls in plan:
                if scenario == "transient_none":
                    return None  # nothing right now
                size = max(1, size // rng.choice((2, 3)))  # fewer samples than asked for
            return self._stream.read(size * bps) or None

    hop = None if scenario != "short_reads" or rng.random() < 0.7 else None
    case = {"op": "recording-is-what-was-read", "seed": seed, "scenario": scenario, "fmt": [rate, width, channels], "block": block, "nsamples": n, "odd_calls": plan}
    if scenario == "position_moved":
        src = BufferAudioSource(data, rate, width, channels)
    else:
        src = Device()
    cls = Recorder if rng.random() < 0.5 else None
    try:
        reader = Recorder(src, block_dur=block / rate, hop_dur=hop) if cls else AudioReader(src, block_dur=block / rate, hop_dur=hop, record=True)
        reader.open()
        got = []
        for k in range(nblocks + 4):
            if scenario == "position_moved" and (k + 1) in plan:
                try:
                    src.position = min(n, src.position + rng.randint(1, block))  # the application skips ahead in its own source
                except Exception:
                    pass
            b = reader.read()
            if b is not None:
                got.append(bytes(b))
        reader.rewind()
        rec = reader.data
        again = []
        for _ in range(len(got) + nblocks + 6):
            b = reader.read()
            if b is None:
                break
            again.append(bytes(b))
        reader.close()
    except Exception as exc:
        ctx.violation("exception-in-recording-is-what-was-read:" + type(exc).__name__, {"case": case, "exception": repr(exc)[:200]})
        return
    consumed = b"".join(got)
    ctx.case(repr(case), bool(got))
    ctx.count("recordings_of_sources_that_do_not_read_like_a_file")
    ctx.count("recordings_scenario_" + scenario)
    if rec != consumed:
        key = "recorded-data-differs-from-consumed-audio"
        if rec is not None and sorted(sample_chunks(rec, bps)) == sorted(sample_chunks(consumed, bps)) and len(rec) == len(consumed):
            key = "recorded-data-in-another-order-than-consumed"
        elif rec is not None and len(rec) > len(consumed):
            key = "recorded-data-longer-than-consumed"
        elif rec is not None and len(rec) < len(consumed):
            key = "recorded-data-shorter-than-consumed"
        ctx.violation(key, {"case": case, "recorded_samples": None if rec is None else len(rec) // bps, "consumed_samples": len(consumed) // bps})
        return
    if b"".join(again) != consumed:
        ctx.violation("replay-differs-from-first-pass", {"case": case, "replayed_samples": len(b"".join(again)) // bps, "consumed_samples": len(consumed) // bps})


def sample_chunks(data, bps):
    return [data[i : i + bps] for i in range(0, len(data), bps)]


def non_recording(ctx, case, tmpdir):
    data = RC.audio_of(case)
    try:
        reader, cleanup = RC.build_reader(case, data, tmpdir, record=False)
    except Exception:
        return
    try:
        reader.open()
        reader.read()
        ctx.count("non_recording_readers_on_" + case["kind"])
        for attr in ("data", "rewind"):
            ctx.count("non_recording_attribute_checks")
            try:
                getattr(reader, attr)
                ctx.violation(f"non-recording-reader-exposes-{attr}", {"case": dict(case, op="non_recording")})
            except AttributeError:
                pass
            except Exception as exc:
                ctx.violation(f"non-recording-reader-{attr}-raises-{type(exc).__name__}", {"case": dict(case, op="non_recording")})
    finally:
        try:
            reader.close()
        except Exception:
            pass
        cleanup()


def exhaustive_core(ctx, conf, tmpdir):
    idx = 0
    for n in range(0, conf["exh_len"] + 1):
        for block in range(1, 5):
            for hop in range(1, block + 1):
                nblocks = len(F.blocks(n, block, hop))
                for mr in [None] + list(range(0, n + 2)):
                    idx += 1
                    if not ctx.mine(idx):
                        continue
                    case = dict(width=1 + (idx % 2), channels=1, rate=10, block=block, hop=(None if hop == block and idx % 2 else hop),
                                nsamples=n, max_read_samples=mr, kind="bytes", extra_reads=1, record=True, seed=idx)
                    for k in range(0, nblocks + 2):
                        for j in (0, k, nblocks + 1):
                            run_history(ctx, case, [k, j, min(k, 1)], tmpdir, use_recorder_class=bool((idx + k) % 2))
                            ctx.count("exhaustive_core_histories")
        if ctx.out_of_time():
            return


def run_shard(ctx):
    conf = TIERS[ctx.tier]
    tmpdir = tempfile.mkdtemp(prefix="vf-c19-")
    try:
        exhaustive_core(ctx, conf, tmpdir)
        # long histories: hundreds of blocks before the first rewind
        rng = ctx.rng("long")
        for i in range(conf["long"]):
            block = rng.choice((1, 2, 3))
            hop = rng.choice((None, block, max(1, block - 1)))
            nblocks = rng.choice((255, 256, 257, 300, 513, 600))
            case = dict(bfrac=0, hfrac=0, width=rng.choice((1, 2)), channels=1, rate=100, block=block, hop=hop,
                        nsamples=block * nblocks + rng.randint(0, 2), max_read_samples=rng.choice((None, None, block * nblocks - 1)),
                        kind=rng.choice(("bytes", "raw_lazy", "wav_obj")), extra_reads=1, record=True, seed=rng.getrandbits(32))
            k = rng.choice((nblocks - 1, nblocks, nblocks + 3, 256, 257))
            run_history(ctx, case, [k, rng.choice((0, 3, k)), 1], tmpdir, use_recorder_class=rng.random() < 0.5)
            ctx.count("long_histories")
        if ctx.shard in (0, 8) or ctx.tier == "thorough":
            nb = 65536 + rng.randint(200, 3000)
            case = dict(bfrac=0, hfrac=0, width=1, channels=1, rate=8000, block=1, hop=None, nsamples=nb + 5, max_read_samples=None,
                        kind="bytes", extra_reads=1, record=True, seed=rng.getrandbits(32))
            run_history(ctx, case, [nb, 3, 1], tmpdir, use_recorder_class=bool(ctx.shard))
            ctx.count("histories_of_more_than_65536_reads")
        rng = ctx.rng("random")
        for i in range(conf["random"]):
            case = RC.random_reader_case(rng, small=(i % 5 != 0))
            bps = case["width"] * case["channels"]
            nb = case["nsamples"] // max(1, case["hop"] or case["block"]) + 2
            history = [rng.choice((0, 0, 1, rng.randint(0, nb), nb + 2)), rng.randint(0, nb + 2)]
            if rng.random() < 0.5:
                history.append(rng.randint(0, nb + 1))
            run_history(ctx, case, history, tmpdir, use_recorder_class=rng.random() < 0.5)
            if i % 10 == 0:
                non_recording(ctx, case, tmpdir)
            if i % 10 == 5:
                non_recording(ctx, dict(case, kind="app_obj"), tmpdir)
            if i % 10 == 8:
                recording_is_what_was_read(ctx, rng.getrandbits(32))
            if i % 6 == 1 and history[0] > 1:
                # a live recording that is paused and resumed: everything consumed, before and after the pause, is the recording
                live = dict(case, kind=rng.choice(("stdin", "live_obj")))
                run_history(ctx, live, history, tmpdir, use_recorder_class=rng.random() < 0.5,
                            pauses=set(rng.sample(range(1, history[0]), min(history[0] - 1, rng.choice((1, 1, 2))))))
            if (i & 31) == 0 and ctx.out_of_time():
                break
    finally:
        shutil.rmtree(tmpdir, ignore_errors=True)


def replay(ctx, case):
    case = dict(case)
    history = case.pop("history", [1, 1])
    cls = case.pop("cls", "Recorder")
    tmpdir = tempfile.mkdtemp(prefix="vf-c19-")
    try:
        op_ = case.pop("op", None)
        if op_ == "recording-is-what-was-read":
            return recording_is_what_was_read(ctx, case["seed"])
        if op_ == "non_recording":
            return non_recording(ctx, case, tmpdir)
        run_history(ctx, case, history, tmpdir, cls == "Recorder", pauses=set(case.pop("pauses", ())))
    finally:
        shutil.rmtree(tmpdir, ignore_errors=True)


def inconclusive(merged, tier):
    c = merged["counters"]
    need = ["histories", "rewinds", "replayed_reads", "data_before_rewind_raised", "histories_with_overlap",
            "histories_with_max_read", "histories_rewound_after_zero_reads", "histories_read_past_the_end",
            "histories_rewound_after_partial_read", "non_recording_attribute_checks", "exhaustive_core_histories", "long_histories", "data_before_rewind_raised_after_reads", "histories_of_more_than_65536_reads", "pauses_before_the_first_rewind", "non_recording_readers_on_app_obj", "recordings_scenario_short_reads_big_windows", "recordings_scenario_transient_none", "recordings_scenario_position_moved"]
    return [f"monitor never observed {k}" for k in need if c.get(k, 0) == 0]
