"""C09 - same audio, same result - whatever the container or parameter spelling."""

import math
import os
import struct
import random
import shutil
import sys
import tempfile
import wave
from fractions import Fraction
from pathlib import Path

import auditok
from auditok import AudioReader, AudioRegion
from auditok.io import BufferAudioSource, RawAudioSource, WaveAudioSource
from auditok.util import AudioEnergyValidator

from .. import audiocommon as AC
from ..stdin import PipeStdin

ID = "C09"
LEVEL = "exploration"
TIERS = {"quick": {"shards": 16, "budget_s": 120, "audios": 40},
         "thorough": {"shards": 16, "budget_s": 900, "audios": 500}}
CONTAINERS = ("bytes", "region_fn", "region_method", "wav", "wav_lazy", "wav_path_obj", "raw", "raw_lazy", "raw_fmt_noext",
              "buffer_obj", "raw_obj", "wave_obj", "reader", "stdin_pipe", "wav_upper_ext", "raw_upper_ext", "recorder_second_pass",
              "region_with_bogus_audio_kwargs", "microphone")
SPELLINGS = ("long", "short", "both_wrong_short", "validator_long", "validator_both")
RULE = ("For each synthesized/random audio and parameter set, split() is run on every container kind (bytes, AudioRegion via "
        "function and method, wav/raw file eager and lazy, Path, explicit format without extension, Buffer/Raw/Wave source "
        "objects, AudioReader whose block duration equals the window, stdin fed through a real pipe) x parameter spellings "
        "(long names, short aliases sr/sw/ch/aw/eth/uc/mr/fmt/val, both with a deliberately wrong short value); every region "
        "list (start sample, bytes) must equal the reference list from bytes input with long names, which is itself compared "
        "with the ENERGY->SEG model.  max_read=t must give the regions of data[:round(t*rate)] (on/off block boundaries, "
        "beyond the end).  Non-trivial = reference has >=1 region; distinct = distinct (audio, parameters, container, spelling).")
ASSUMPTIONS = [
    "the AudioReader container is compared only when floor(w*rate)/rate == w (otherwise durations are legitimately counted in the reader's shorter block)",
    "the microphone container (input=None) is driven through a stand-in pyaudio module (vf/fakepyaudio.py); a real device is not covered",
    "held means: held on the executions listed in coverage",
]


def sig(regions, rate):
    return [(round(r.start * rate), bytes(r)) for r in regions]


def spelled(case, spelling, container):
    """-> kwargs for split() in the given spelling."""
    long_audio = dict(sampling_rate=case["rate"], sample_width=case["width"], channels=case["channels"])
    short_audio = dict(sr=case["rate"], sw=case["width"], ch=case["channels"])
    wrong_audio = dict(sr=case["rate"] * 2 + 1, sw={1: 2, 2: 4, 4: 1}[case["width"]], ch=case["channels"] + 1)
    min_dur, max_dur, max_silence = AC.durations(case)
    base = dict(min_dur=min_dur, max_dur=max_dur, max_silence=max_silence, drop_trailing_silence=case["drop"], strict_min_dur=case["strict"])
    long_p = dict(analysis_window=case["w"], energy_threshold=case["thr"], use_channel=case["uc"])
    short_p = dict(aw=case["w"], eth=case["thr"], uc=case["uc"])
    wrong_p = dict(aw=case["w"] * 3, eth=case["thr"] + 25.0, uc=("mix" if case["uc"] != "mix" else None))
    needs_audio = container in ("bytes", "raw", "raw_lazy", "raw_fmt_noext", "stdin_pipe", "raw_upper_ext", "microphone")
    kw = dict(base)
    if spelling in ("long", "validator_long"):
        kw.update(long_p)
        if needs_audio:
            kw.update(long_audio)
    elif spelling == "short":
        kw.update(short_p)
        if needs_audio:
            kw.update(short_audio)
    else:  # both given, the short one deliberately wrong: the long name must win - whichever the caller wrote first
        if case["pcm_seed"] & 1:
            kw.update(wrong_p)
            if needs_audio:
                kw.update(wrong_audio)
            kw.update(long_p)
            if needs_audio:
                kw.update(long_audio)
        else:
            kw.update(long_p)
            kw.update(wrong_p)
            if needs_audio:
                kw.update(long_audio)
                kw.update(wrong_audio)
    if spelling.startswith("validator"):
        good = AudioEnergyValidator(case["thr"], case["width"], case["channels"], use_channel=case["uc"])
        if (case["pcm_seed"] >> 5) % 3 == 0:
            # the caller's validator is an object whose truth value happens to be False (a memoising mapping, empty at the start;
            # a history that is still empty): it is the validator all the same, under either name
            inner_ = good

            class _Memo(dict):
                def is_valid(self, frame):
                    return bool(inner_.is_valid(frame))

                def __call__(self, frame):
                    return self.is_valid(frame)

            from auditok.util import DataValidator

            class _History(DataValidator):
                def __len__(self):
                    return 0

                def is_valid(self, frame):
                    return bool(inner_.is_valid(frame))

            good = _History() if (case["pcm_seed"] >> 7) & 1 else _Memo()
        for k in ("energy_threshold", "eth", "use_channel", "uc"):
            kw.pop(k, None)
        if spelling == "validator_long":
            kw["validator"] = good if case["pcm_seed"] & 8 or not isinstance(good, AudioEnergyValidator) else good.is_valid
        else:
            if case["pcm_seed"] & 1:
                kw["val"] = lambda frame: True  # wrong on purpose, and written first
                kw["validator"] = good
            else:
                kw["validator"] = good
                kw["val"] = lambda frame: True  # wrong on purpose
    return kw


def run_container(ctx, case, data, tmp, container, spelling, max_read, rng):
    rate, width, channels = case["rate"], case["width"], case["channels"]
    kw = spelled(case, spelling, container)
    if max_read is not None and container not in ("reader", "region_method", "recorder_second_pass"):
        if spelling == "short":
            kw["mr"] = max_read
        elif spelling in ("both_wrong_short", "validator_both"):
            if case["pcm_seed"] & 1:
                kw = dict({"mr": max_read / 3 + 0.01, "max_read": max_read}, **kw)  # alias first
            else:
                kw["max_read"] = max_read
                kw["mr"] = max_read / 3 + 0.01
        else:
            kw["max_read"] = max_read
    cleanup = lambda: None
    if container == "bytes":
        gen = auditok.split(data, **kw)
    elif container == "region_fn":
        # a region that came out of an earlier split() carries a start time: it is still just a container of audio
        gen = auditok.split(AudioRegion(data, rate, width, channels, start=(2.5 if case["pcm_seed"] & 16 else None)), **kw)
    elif container == "region_method":
        reg = AudioRegion(data, rate, width, channels, start=(1.25 if case["pcm_seed"] & 32 else None))
        if max_read is not None:
            # the method refuses max_read; the documented way is to slice first
            n = sorted(round_cands(max_read, rate))[0]
            reg = reg[:n]
        gen = reg.split(**kw)
    elif container in ("wav", "wav_lazy", "wav_path_obj", "wave_obj"):
        path = os.path.join(tmp, "c_$TAKE_%TAKE%.wav" if (case["pcm_seed"] >> 30) & 1 else "c.wav")  # TAKE is a defined variable: still just characters
        if (case["pcm_seed"] >> 31) & 3 == 3:
            # named through a symbolic link to a directory and "..": another file sits where a lexical clean-up of the name points
            path, decoy = AC.path_through_symlink(tmp, "c.wav")
            with wave.open(decoy, "wb") as fp:
                fp.setframerate(rate), fp.setsampwidth(width), fp.setnchannels(channels)
                fp.writeframes(bytes(len(data)))
        AC.write_wav(path, data, rate, width, channels, trailing_chunk=bool((case["pcm_seed"] >> 37) & 1))  # a LIST chunk after the audio is not audio
        if container == "wave_obj":
            gen = auditok.split(WaveAudioSource(path), **kw)
        elif container == "wav_path_obj":
            gen = auditok.split(Path(path), **kw)
        else:
            gen = auditok.split(path, large_file=(container == "wav_lazy"), **kw)
    elif container in ("raw", "raw_lazy", "raw_fmt_noext", "raw_obj"):
        name = "c_noext" if container == "raw_fmt_noext" else ("c_${TAKE}.raw" if (case["pcm_seed"] >> 30) & 1 else "c.raw")
        path = os.path.join(tmp, name)
        if (case["pcm_seed"] >> 31) & 3 == 3:
            path, decoy = AC.path_through_symlink(tmp, name)
            with open(decoy, "wb") as fp:
                fp.write(bytes(len(data)))
        with open(path, "wb") as fp:
            fp.write(data)
        if container == "raw_obj":
            gen = auditok.split(RawAudioSource(path, rate, width, channels), **kw)
        elif container == "raw_fmt_noext":
            if spelling == "short":
                kw["fmt"] = "raw"
            elif spelling in ("both_wrong_short", "validator_both"):
                if case["pcm_seed"] & 1:
                    kw = dict({"fmt": "wav", "audio_format": "raw"}, **kw)
                else:
                    kw["audio_format"] = "raw"
                    kw["fmt"] = "wav"
            else:
                kw["audio_format"] = "raw"
            gen = auditok.split(path, **kw)
        else:
            gen = auditok.split(path, large_file=(container == "raw_lazy"), **kw)
    elif container in ("wav_upper_ext", "raw_upper_ext"):
        # file names as cameras and recorders write them: REC0001.WAV, take.Raw
        ext = {"wav_upper_ext": (".WAV", ".Wav"), "raw_upper_ext": (".RAW", ".Raw")}[container][case["pcm_seed"] & 1]
        path = os.path.join(tmp, "REC0001" + ext)
        if container == "wav_upper_ext":
            with wave.open(path, "wb") as fp:
                fp.setframerate(rate)
                fp.setsampwidth(width)
                fp.setnchannels(channels)
                fp.writeframes(data)
            gen = auditok.split(path, large_file=bool(case["pcm_seed"] & 2), **kw)
        else:
            with open(path, "wb") as fp:
                fp.write(data)
            akw = dict(sampling_rate=rate, sample_width=width, channels=channels) if not any(k in kw for k in ("sr", "sampling_rate")) else {}
            gen = auditok.split(path, large_file=bool(case["pcm_seed"] & 2), **kw, **akw)
    elif container == "recorder_second_pass":
        for k in ("analysis_window", "aw", "max_read", "mr"):
            kw.pop(k, None)
        rec = auditok.Recorder(data, block_dur=case["w"], max_read=max_read, sr=rate, sw=width, ch=channels)
        for _ in auditok.split(rec, **kw):
            pass
        rec.rewind()
        gen = auditok.split(rec, **kw)
    elif container == "region_with_bogus_audio_kwargs":
        # the caller reuses one kwargs dict for every input kind: a region's own parameters are the audio's
        bogus = dict(sampling_rate=rate * 2 + 1, sample_width={1: 2, 2: 4, 4: 1}[width], channels=channels + 1)
        for k in ("sr", "sw", "ch", "sampling_rate", "sample_width", "channels"):
            kw.pop(k, None)
        gen = auditok.split(AudioRegion(data, rate, width, channels), **kw, **bogus)
    elif container == "microphone":
        # input=None: the PyAudio path, driven through a stand-in device (PyAudio is not installed)
        from .. import fakepyaudio

        akw = {} if any(k in kw for k in ("sr", "sampling_rate")) else dict(sampling_rate=rate, sample_width=width, channels=channels)
        with fakepyaudio.installed(data):
            return sig(auditok.split(None, **kw, **akw), rate)
    elif container == "buffer_obj":
        gen = auditok.split(BufferAudioSource(data, rate, width, channels), **kw)
    elif container == "reader":
        for k in ("analysis_window", "aw"):
            kw.pop(k, None)
        reader = AudioReader(data, block_dur=case["w"], max_read=max_read, sr=rate, sw=width, ch=channels)
        gen = auditok.split(reader, **kw)
    elif container == "stdin_pipe":
        old = sys.stdin
        if (case["pcm_seed"] >> 36) & 1:
            ps = PipeStdin(data, rng, header=b"#pcm stream follows\n")
            ps.consume_header()  # the application read a header line through the buffered layer before calling split("-")
        else:
            ps = PipeStdin(data, rng)
        sys.stdin = ps

        def cleanup():
            sys.stdin = old
            ps.close()

        try:
            gen = auditok.split("-", **kw)
        except Exception:
            cleanup()
            raise
    else:
        raise ValueError(container)
    try:
        return sig(gen, rate)
    finally:
        cleanup()


def round_cands(x, rate):
    """round(t*rate) as the statement spells it: Python's round() of the product (ties to even)."""
    return {round(x * rate)}


def run_audio(ctx, case, tmp, rng, thorough):
    built = AC.build_audio(case)
    if built is None:
        return
    data, verdicts = built
    rate, width, channels = case["rate"], case["width"], case["channels"]
    bps = width * channels
    cj = AC.case_json(case)
    total = len(data) // bps
    # max_read variants: None, on a block boundary, off a boundary, beyond the end, zero
    mrs = [None]
    if total:
        k = rng.randint(0, max(0, total // case["block"]))
        mrs.append(k * case["block"] / rate)
        mrs.append(rng.randint(0, total) / rate)
        mrs.append((total + rng.randint(1, 3 * case["block"])) / rate)
        mrs.append((rng.randint(0, total) + 0.3) / rate)
        mrs.append((rng.randint(0, total) + 0.5) / rate)  # an exact tie when the rate is a power of two: round() goes to even
    if not thorough:
        mrs = [None, rng.choice(mrs[1:])] if len(mrs) > 1 else mrs
    for max_read in mrs:
        # reference: bytes input, long names, on the (pre-sliced) audio
        if max_read is None:
            refs = [data]
        else:
            refs = [data[: n * bps] for n in sorted(round_cands(max_read, rate))]
        ref_sigs = []
        try:
            for rd in refs:
                ref_sigs.append(sig(auditok.split(rd, **spelled(case, "long", "bytes")), rate))
        except Exception as exc:
            ctx.violation("reference-split-raises:" + type(exc).__name__, {"case": cj, "exception": repr(exc)[:200]})
            return
        if max_read is None:
            exp = AC.expected_regions(case, data, verdicts)
            if [(s, len(b) // bps) for s, b in ref_sigs[0]] != exp:
                ctx.violation("reference-differs-from-model", {"case": cj, "observed": [(s, len(b) // bps) for s, b in ref_sigs[0]][:20], "expected": exp[:20]})
                return
        for container in CONTAINERS:
            if container in ("reader", "recorder_second_pass") and case["w"] != case["block"] / rate:
                ctx.count("reader_container_skipped_block_shorter_than_window")
                continue
            spellings = SPELLINGS if thorough else (rng.choice(SPELLINGS[:3]), rng.choice(SPELLINGS))
            for spelling in spellings:
                if container == "reader" and spelling in ("both_wrong_short",):
                    pass
                w = {"case": cj, "container": container, "spelling": spelling, "max_read": max_read}
                try:
                    got = run_container(ctx, case, data, tmp, container, spelling, max_read, rng)
                except Exception as exc:
                    ctx.case(repr((data, sorted(cj.items()), container, spelling, max_read)), True)
                    ctx.violation(f"container-raises:{container}:{type(exc).__name__}", dict(w, exception=repr(exc)[:300]))
                    continue
                ctx.case(repr((data, sorted(cj.items()), container, spelling, max_read)), bool(ref_sigs[0]))
                ctx.count("container_" + container)
                ctx.count("spelling_" + spelling)
                ctx.count("comparisons")
                if max_read is not None:
                    ctx.count("comparisons_with_max_read")
                if got not in ref_sigs:
                    ref = ref_sigs[0]
                    if [g[1] for g in got] == [r[1] for r in ref]:
                        what = "start-times-differ"
                    elif len(got) != len(ref):
                        what = "region-count-differs"
                    else:
                        what = "region-bytes-differ"
                    if spelling in ("both_wrong_short", "validator_both"):
                        key = f"short-alias-wins-over-long-name:{what}"
                    elif max_read is not None and run_is_ok_without_max_read(ctx, case, data, tmp, container, spelling, rng, ref_sigs):
                        key = f"max_read-not-equal-to-slicing:{what}"
                    else:
                        key = f"container-result-differs:{container if spelling != 'short' else 'short-spelling'}:{what}"
                    ctx.violation(key, dict(w, observed=[(s, len(b) // bps) for s, b in got][:12], expected=[(s, len(b) // bps) for s, b in ref][:12]))
        if ref_sigs[0] and ctx.want_sample():
            ctx.sample({"case": cj, "max_read": max_read, "containers": list(CONTAINERS), "regions": [(s, len(b) // bps) for s, b in ref_sigs[0]][:8]})


def run_is_ok_without_max_read(ctx, case, data, tmp, container, spelling, rng, ref_sigs):
    """classification helper only: is the container fine when no max_read is involved?"""
    try:
        full = sig(auditok.split(data, **spelled(case, "long", "bytes")), case["rate"])
        return run_container(ctx, case, data, tmp, container, spelling, None, rng) == full
    except Exception:
        return False


def large_file_case(ctx, tmp, rng, fmt=(16000, 1, 1, 0.05), size=9 * 1024 * 1024):
    """one recording of several MiB: lazily and eagerly loaded raw/wav files against the bytes reference.  Formats and windows
    vary so that internal chunk sizes (64 KiB, 1 MiB, 8 MiB) fall at every phase of a window and of a sample."""
    rate, width, channels, aw = fmt
    bps = width * channels
    block = int(aw * rate) * bps
    loud = (bytes([60, 196]) * block)[:block] if width == 1 else struct.pack("<h" if width == 2 else "<i", 9000 if width == 2 else 9000 * 65536) * (block // width)
    quiet = bytes(block)
    parts = []
    total = 0
    while total < size:
        k = rng.choice((3, 7, 20, 45))
        g = rng.choice((2, 9, 30))
        parts.append(loud * k + quiet * g)
        total += (k + g) * block
    data = b"".join(parts)[: (size + 123 * bps) // bps * bps]
    kw = dict(min_dur=2 * aw, max_dur=40 * aw, max_silence=4 * aw, analysis_window=aw, energy_threshold=30)
    ref = sig(auditok.split(data, sr=rate, sw=width, ch=channels, **kw), rate)
    p_raw = os.path.join(tmp, "big.raw")
    with open(p_raw, "wb") as fp:
        fp.write(data)
    p_wav = os.path.join(tmp, "big.wav")
    with wave.open(p_wav, "wb") as fp:
        fp.setframerate(rate)
        fp.setsampwidth(width)
        fp.setnchannels(channels)
        fp.writeframes(data)
    for name, fn in (("raw_lazy", lambda: auditok.split(p_raw, large_file=True, sr=rate, sw=width, ch=channels, **kw)),
                     ("raw_obj", lambda: auditok.split(RawAudioSource(p_raw, rate, width, channels), **kw)),
                     ("wav_lazy", lambda: auditok.split(p_wav, large_file=True, **kw)),
                     ("raw", lambda: auditok.split(p_raw, sr=rate, sw=width, ch=channels, **kw))):
        ctx.count("large_file_comparisons")
        ctx.case(("large", name, len(data)), bool(ref))
        try:
            got = sig(fn(), rate)
        except Exception as exc:
            ctx.violation(f"container-raises:{name}:{type(exc).__name__}", {"case": {"large_file": len(data)}, "exception": repr(exc)[:200]})
            continue
        if got != ref:
            first = next((i for i, (a, b) in enumerate(zip(got, ref)) if a != b), min(len(got), len(ref)))
            ctx.violation(f"container-result-differs:{name}:large-file", {"case": {"large_file": len(data)}, "regions": [len(got), len(ref)],
                                                                         "first_difference_at_region": first, "start_sample_there": (ref[first][0] if first < len(ref) else None)})
    os.unlink(p_raw)
    os.unlink(p_wav)


def run_shard(ctx):
    conf = TIERS[ctx.tier]
    rng = ctx.rng("audios")
    tmp = tempfile.mkdtemp(prefix="vf-c09-")
    try:
        if ctx.shard == 0 or ctx.tier == "thorough" and ctx.shard < 4:
            large_file_case(ctx, tmp, ctx.rng("large"))
        elif ctx.shard in (1, 2, 3):
            fmt = ((16000, 2, 1, 0.01), (44100, 2, 2, 0.02), (8000, 4, 1, 0.005))[ctx.shard - 1]
            large_file_case(ctx, tmp, ctx.rng("large"), fmt=fmt, size=int(2.3 * 1024 * 1024))
        for i in range(conf["audios"]):
            case = AC.random_split_case(rng, max_windows=30, small_rate=(i % 4 != 0))
            run_audio(ctx, case, tmp, rng, ctx.tier == "thorough")
            for f in os.listdir(tmp):
                p_ = os.path.join(tmp, f)
                if os.path.isdir(p_) and not os.path.islink(p_):
                    import shutil as _sh

                    _sh.rmtree(p_, ignore_errors=True)
                else:
                    os.unlink(p_)
            if ctx.out_of_time():
                break
    finally:
        shutil.rmtree(tmp, ignore_errors=True)


def replay(ctx, case):
    tmp = tempfile.mkdtemp(prefix="vf-c09-")
    try:
        run_audio(ctx, AC.case_from_json(case), tmp, random.Random(0), True)
    finally:
        shutil.rmtree(tmp, ignore_errors=True)


def inconclusive(merged, tier):
    c = merged["counters"]
    need = ["comparisons", "comparisons_with_max_read", "large_file_comparisons"] + ["container_" + k for k in CONTAINERS] + ["spelling_" + s for s in SPELLINGS]
    return [f"monitor never observed {k}" for k in need if c.get(k, 0) == 0]
