"""C05 - split() regions are the input's own bytes at the reported times."""

import auditok
from auditok import AudioRegion

from .. import audiocommon as AC

ID = "C05"
LEVEL = "exploration"
TIERS = {"quick": {"shards": 16, "budget_s": 120, "cases": 1500},
         "thorough": {"shards": 16, "budget_s": 900, "cases": 80000}}
RULE = ("split() / AudioRegion.split() run on synthesized PCM (widths 1/2/4, 1-4 channels, rates 8..44100, window 1..80 "
        "samples, w*rate integral and non-integral, optional partial last window, all channel selectors, 4 modes) and on "
        "fully random PCM.  Oracle: end-to-end model ENERGY(struct+Fraction) per window -> SEG -> expected (start sample, "
        "sample count); every region must carry exactly input[s*bps : s*bps+len], the input's rate/width/channels, start on "
        "a whole window, duration == samples/rate, |(end-start)-duration|<=1e-9, increasing & disjoint, and the region list "
        "must equal the model's.  Non-trivial = >=1 region expected; distinct = distinct (audio bytes, parameters).")
ASSUMPTIONS = [
    "durations are placed half a window away from rounding boundaries here (boundaries are C06's subject)",
    "windows within 1e-6 dB of the threshold are regenerated (boundary decisions are C07's subject)",
    "float identities are checked with the stated tolerances (exact equality is false for correct binary floating point)",
    "held means: held on the executions listed in coverage",
]


APIS = ("function", "method", "method_on_region_with_start", "function_on_region_with_start", "raw_file", "raw_file_lazy",
        "wav_file", "wav_file_lazy", "used_buffer_source", "used_reader", "stdin_pipe", "recorder_second_pass",
        "region_with_conflicting_audio_kwargs", "split_and_plot", "own_validator_object", "source_that_fails_once", "recycled_buffer")


def run_case(ctx, case, api=None):
    built = AC.build_audio(case)
    if built is None:
        ctx.count("cases_regenerated_threshold_guard")
        return
    data, verdicts = built
    expected = AC.expected_regions(case, data, verdicts)
    import random as _random

    api = api or APIS[_random.Random(case["pcm_seed"] ^ 0xA91).randrange(len(APIS))]  # independent of the single bits used below
    kw = AC.split_kwargs(case, long_names=bool(case["pcm_seed"] & 2))
    bps_ = case["width"] * case["channels"]
    total_ = len(data) // bps_
    if api in ("function", "raw_file", "raw_file_lazy", "wav_file", "wav_file_lazy") and (case["pcm_seed"] >> 12) % 3 == 0 and total_ > 1:
        # max_read=t: the input IS its first round(t*rate) samples - usually ending inside an analysis window, often inside an event
        from ..gen import audio as A_

        n_ = 1 + (case["pcm_seed"] >> 14) % total_
        t_ = n_ / case["rate"]
        if round(t_ * case["rate"]) == n_:
            v_ = A_.model_verdicts(data[: n_ * bps_], case["width"], case["channels"], case["block"], case["thr"], case["uc"])
            if v_ is not None:
                data, verdicts = data[: n_ * bps_], v_
                full_data = built[0]
                expected = AC.expected_regions(case, data, verdicts)
                kw["mr" if case["pcm_seed"] & 8 else "max_read"] = t_
                ctx.count("cases_with_max_read")
                if n_ % case["block"]:
                    ctx.count("cases_with_max_read_inside_a_window")
    src_data = built[0] if "mr" in kw or "max_read" in kw else data
    try:
        if api == "function":
            regions = list(auditok.split(src_data, **kw, **AC.audio_kwargs(case, long_names=bool(case["pcm_seed"] & 4))))
        elif api == "method":
            reg = AudioRegion(src_data, case["rate"], case["width"], case["channels"])
            regions = list(reg.split(**kw))
        elif api in ("raw_file", "raw_file_lazy", "wav_file", "wav_file_lazy"):
            import os
            import tempfile
            import wave

            import shutil

            tdir = tempfile.mkdtemp(prefix="vf-c05-")
            ext = ".raw" if api.startswith("raw") else ".wav"
            if (case["pcm_seed"] >> 33) & 1:
                # the file is named through a symbolic link to a directory and "..": the operating system, not string
                # surgery, says which file that is (a different file sits where a lexical clean-up would look)
                path, decoy = AC.path_through_symlink(tdir, "in" + ext)
                ctx.count("files_named_through_a_symlinked_directory")
            else:
                path, decoy = os.path.join(tdir, "in" + ext), None
            try:
                for target, content in ((path, src_data), (decoy, bytes(len(src_data)))):
                    if target is None:
                        continue
                    if api.startswith("raw"):
                        with open(target, "wb") as fp:
                            fp.write(content)
                    else:
                        AC.write_wav(target, content, case["rate"], case["width"], case["channels"], trailing_chunk=bool((case["pcm_seed"] >> 37) & 1))
                if api.startswith("raw"):
                    regions = list(auditok.split(path, large_file=api.endswith("lazy"), **kw, **AC.audio_kwargs(case)))
                else:
                    regions = list(auditok.split(path, large_file=api.endswith("lazy"), **kw))
            finally:
                shutil.rmtree(tdir, ignore_errors=True)
        elif api == "stdin_pipe":
            import random as _random
            import sys as _sys

            from ..stdin import PipeStdin

            old_stdin = _sys.stdin
            if (case["pcm_seed"] >> 36) & 1:
                ps = PipeStdin(src_data, _random.Random(case["pcm_seed"]), header=b"#pcm stream follows\n")
                ps.consume_header()
            else:
                ps = PipeStdin(data, _random.Random(case["pcm_seed"]), max_chunk=max(1, min(997, case["block"] * case["width"] * case["channels"] - 1)))
            _sys.stdin = ps
            try:
                regions = list(auditok.split("-", **kw, **AC.audio_kwargs(case)))
            finally:
                _sys.stdin = old_stdin
                ps.close()
        elif api == "source_that_fails_once":
            # the audio source raises once in the middle of the stream (Ctrl-C delivered inside the read, a device error).  Either
            # the exception reaches the caller - then the regions handed out before it are a prefix of the right answer - or
            # split() finishes - then its answer is the whole right answer.  A truncated answer that looks complete is neither.
            from auditok.io import BufferAudioSource

            nb = max(1, len(verdicts))
            fail_at = 1 + (case["pcm_seed"] >> 35) % nb
            exc_type = (KeyboardInterrupt, OSError, TimeoutError, RuntimeError)[(case["pcm_seed"] >> 40) % 4]

            class Flaky(BufferAudioSource):
                vf_calls = 0

                def read(self, size):
                    Flaky.vf_calls += 1
                    if Flaky.vf_calls == fail_at:
                        e = exc_type("injected source fault")
                        e.vf_injected = True
                        raise e
                    return super().read(size)

            regions, propagated = [], False
            try:
                for r in auditok.split(Flaky(src_data, case["rate"], case["width"], case["channels"]), **kw):
                    regions.append(r)
            except BaseException as exc:
                if not getattr(exc, "vf_injected", False):
                    raise
                propagated = True
            ctx.count("source_faults_that_reached_the_caller" if propagated else "source_faults_absorbed_by_split")
            if propagated:
                expected = expected[: len(regions)]
        elif api == "recycled_buffer":
            # the application's capture buffer (a bytearray, or a memoryview of it) serves as the source and is recycled once the
            # regions have been handed out: a region carries the input BYTES of its sample range, not a window into that buffer
            from auditok.io import BufferAudioSource

            buf = bytearray(src_data)
            how_ = (case["pcm_seed"] >> 21) % 3
            try:
                src = BufferAudioSource(memoryview(buf) if how_ == 0 else (buf if how_ == 1 else memoryview(buf).toreadonly()), case["rate"], case["width"], case["channels"])
            except Exception:
                src = None  # a source class may refuse such a buffer: nothing to judge then
            if src is None:
                api = "function"
                regions = list(auditok.split(src_data, **kw, **AC.audio_kwargs(case)))
            else:
                regions = []
                for r in auditok.split(src, **kw):
                    regions.append(r)
                try:
                    if how_ == 2:
                        memoryview(buf)[:] = bytes(len(buf))
                    else:
                        buf[:] = bytes(len(buf))
                except BufferError:
                    pass  # still exported somewhere: cannot be recycled yet
        elif api == "own_validator_object":
            # the caller's own validator: an object that happens to be falsy (it keeps a history of its decisions, empty at the
            # start), a plain function, or a DataValidator subclass - it, not the default energy validator, decides every window
            from auditok.util import AudioEnergyValidator, DataValidator

            inner = AudioEnergyValidator(case["thr"], case["width"], case["channels"], use_channel=case["uc"])

            class History(DataValidator):
                def __init__(self):
                    self.seen = []

                def __len__(self):
                    return len(self.seen)

                def is_valid(self, window):
                    r = bool(inner.is_valid(window))
                    if (case["pcm_seed"] >> 27) & 1:
                        self.seen.append(r)  # truthy from the first decision on; otherwise empty - falsy - for ever
                    return r

            which = (case["pcm_seed"] >> 24) % 3
            val = History() if which < 2 else (lambda window: bool(inner.is_valid(window)))
            kw2 = {k: v for k, v in kw.items() if k not in ("energy_threshold", "eth", "use_channel", "uc")}
            kw2["validator" if which != 1 else "val"] = val
            regions = list(auditok.split(src_data, **kw2, **AC.audio_kwargs(case)))
        elif api == "recorder_second_pass":
            # history: Recorder -> split -> rewind -> split again; the second pass reports the same audio parameters and times
            from auditok import Recorder

            if case["w"] != case["block"] / case["rate"]:
                api = "function"
                regions = list(auditok.split(data, **kw, **AC.audio_kwargs(case)))
            else:
                kw2 = {k: v for k, v in kw.items() if k not in ("analysis_window", "aw")}
                rec = Recorder(data, block_dur=case["w"], **AC.audio_kwargs(case))
                list(auditok.split(rec, **kw2))
                rec.rewind()
                regions = list(auditok.split(rec, **kw2))
        elif api == "region_with_conflicting_audio_kwargs":
            # a helper that passes raw-audio parameters for every input kind: a region's own parameters are the input's
            reg = AudioRegion(data, case["rate"], case["width"], case["channels"])
            bogus = dict(sampling_rate=case["rate"] * 2 + 1, sample_width={1: 2, 2: 4, 4: 1}[case["width"]], channels=case["channels"] + 1)
            if case["pcm_seed"] & 64:
                bogus = dict(sr=bogus["sampling_rate"], sw=bogus["sample_width"], ch=bogus["channels"])
            regions = list(auditok.split(reg, **kw, **bogus)) if case["pcm_seed"] & 128 else list(reg.split(**kw, **bogus))
        elif api == "split_and_plot":
            # the plotting entry point returns the same regions (figure rendered off-screen)
            reg = AudioRegion(data, case["rate"], case["width"], case["channels"])
            if len(data) == 0 or len(case["v"]) > 25 or (case["pcm_seed"] >> 9) % 4:
                api = "method"  # plotting is slow: one in four of these slots really plots
                regions = list(reg.split(**kw))
            else:
                import matplotlib.pyplot as plt

                fn = reg.splitp if case["pcm_seed"] & 64 else reg.split_and_plot
                regions = list(fn(show=False, **kw))
                plt.close("all")
        elif api in ("used_buffer_source", "used_reader"):
            # a multi-step history: the source was opened, partly read and closed before being handed to split();
            # times still count from the beginning of the input
            from auditok import AudioReader
            from auditok.io import BufferAudioSource

            n = max(1, (case["pcm_seed"] % 5) * case["block"] // 2)
            if api == "used_buffer_source":
                src = BufferAudioSource(data, case["rate"], case["width"], case["channels"])
                src.open()
                src.read(n)
                src.close()
                regions = list(auditok.split(src, **kw))
            else:
                kw2 = {k: v for k, v in kw.items() if k not in ("analysis_window", "aw")}
                rd = AudioReader(data, block_dur=case["block"] / case["rate"], **AC.audio_kwargs(case))
                if case["w"] != case["block"] / case["rate"]:
                    api = "function"
                    regions = list(auditok.split(data, **kw, **AC.audio_kwargs(case)))
                else:
                    rd.open()
                    for _ in range(case["pcm_seed"] % 3 + 1):
                        rd.read()
                    rd.close()
                    regions = list(auditok.split(rd, **kw2))
        else:
            # the input is itself a region that carries a start time (as regions yielded by an earlier split() do):
            # times of the new regions still count from the beginning of THIS input
            reg = AudioRegion(data, case["rate"], case["width"], case["channels"], start=1.0 + (case["pcm_seed"] % 7) * 0.25)
            regions = list(reg.split(**kw)) if api.startswith("method") else list(auditok.split(reg, **kw))
    except Exception as exc:
        ctx.case((data, AC.case_json(case)), True)
        ctx.violation("exception:" + type(exc).__name__, {"case": AC.case_json(case), "api": api, "exception": repr(exc)[:300]})
        return
    ctx.case(repr((data, sorted((k, repr(v)) for k, v in case.items()))), bool(expected))
    ctx.count("regions_observed", len(regions))
    ctx.count("regions_expected", len(expected))
    ctx.count("windows", len(verdicts))
    ctx.count("api_" + api)
    ctx.count(f"width_{case['width']}")
    ctx.count(f"channels_{case['channels']}")
    if case["thr"] == 0:
        ctx.count("cases_threshold_zero")
    if regions and not probs_nested(ctx, case, regions, kw):
        return
    if case["partial"]:
        ctx.count("cases_with_partial_last_window")
        if expected and expected[-1][0] + expected[-1][1] == len(data) // (case["width"] * case["channels"]):
            ctx.count("regions_ending_in_partial_window")
    if int(case["w"] * case["rate"]) != case["w"] * case["rate"]:
        ctx.count("cases_nonintegral_window")
    probs, got = AC.check_regions(regions, case, data, expected)
    for key, detail in probs:
        detail["case"] = AC.case_json(case)
        detail["api"] = api
        ctx.violation(key, detail)
    if expected and ctx.want_sample():
        ctx.sample({"case": AC.case_json(case), "regions(start_sample,nsamples)": got, "nbytes": len(data)})


def probs_nested(ctx, case, regions, kw):
    """two-step history: split one of the yielded regions again; the inner regions must be the outer region's own bytes
    at times counted from the beginning of that region."""
    r = regions[len(regions) // 2]
    sub = dict(case)
    try:
        inner = list(r.split(**{k: v for k, v in kw.items() if k not in ("max_read", "mr")}))  # the region method refuses max_read
    except Exception as exc:
        ctx.violation("nested-split-raises:" + type(exc).__name__, {"case": AC.case_json(case), "exception": repr(exc)[:200]})
        return False
    ctx.count("nested_splits")
    probs, _ = AC.check_regions(inner, case, bytes(r), None)
    for key, detail in probs:
        detail["case"] = AC.case_json(case)
        detail["nested_in_region_starting_at"] = r.start
        ctx.violation("nested:" + key, detail)
        return False
    return True


def huge_window_case(ctx):
    """analysis windows of ~94 KiB (48 kHz, 16 bit, stereo, 0.49 s) through every file path."""
    import os
    import tempfile

    rate, width, channels = 48000, 2, 2
    block = 23520
    w = block / rate
    case = dict(rate=rate, width=width, channels=channels, block=block, w=w, min_len=1, max_len=3, max_sil=1, drop=False, strict=False,
                v=[0, 1, 1, 0, 0, 0, 1, 1, 1, 1, 0, 1], partial=777, uc=None, thr=50.0, pcm_seed=7, random_pcm=False)
    import struct

    loud = struct.pack("<4h", 9000, -7000, -9000, 7000) * (block // 2)   # two stereo samples per unit, ~78 dB
    quiet = bytes(block * width * channels)
    windows = [loud if x else quiet for x in case["v"]]
    windows[-1] = windows[-1][: case["partial"] * width * channels]
    data = b"".join(windows)
    verdicts = list(case["v"])
    expected = AC.expected_regions(case, data, verdicts)
    kw = AC.split_kwargs(case)
    fd, path = tempfile.mkstemp(prefix="vf-c05-big-", suffix=".raw")
    os.close(fd)
    try:
        with open(path, "wb") as fp:
            fp.write(data)
        for api, fn in (("raw_file_lazy", lambda: auditok.split(path, large_file=True, **kw, **AC.audio_kwargs(case))),
                        ("raw_file", lambda: auditok.split(path, **kw, **AC.audio_kwargs(case))),
                        ("function", lambda: auditok.split(data, **kw, **AC.audio_kwargs(case)))):
            ctx.count("huge_window_cases")
            ctx.case(("huge-window", api), True)
            try:
                regions = list(fn())
            except Exception as exc:
                ctx.violation("exception:" + type(exc).__name__, {"case": {"huge_window": api}, "exception": repr(exc)[:200]})
                continue
            probs, got = AC.check_regions(regions, case, data, expected)
            for key, detail in probs:
                ctx.violation(key, dict(detail, case={"huge_window": api, "block_bytes": block * width * channels}))
    finally:
        os.unlink(path)


def run_shard(ctx):
    conf = TIERS[ctx.tier]
    if ctx.shard == ctx.nshards - 1 and not ctx.replay:
        # the repository's own 579 tests as one more workload, with the passive split() monitor riding on every call they make
        from .. import repotests

        repotests.run(ctx, "split")
    if ctx.shard == 3:
        huge_window_case(ctx)
    rng = ctx.rng("cases")
    for i in range(conf["cases"]):
        case = AC.random_split_case(rng, max_windows=40 if ctx.tier == "quick" else 120, small_rate=(i % 4 != 0))
        run_case(ctx, case)
        if ctx.out_of_time():
            break


def replay(ctx, case):
    run_case(ctx, AC.case_from_json(case))


def inconclusive(merged, tier):
    c = merged["counters"]
    return [f"monitor never observed {k}" for k in
            ("regions_observed", "regions_expected", "api_function", "api_method", "api_method_on_region_with_start", "api_function_on_region_with_start", "huge_window_cases", "cases_with_max_read_inside_a_window", "api_raw_file_lazy", "api_wav_file_lazy", "api_used_buffer_source", "api_used_reader", "api_stdin_pipe", "api_recorder_second_pass", "api_region_with_conflicting_audio_kwargs", "api_split_and_plot", "api_own_validator_object", "api_source_that_fails_once", "api_recycled_buffer", "cases_threshold_zero", "nested_splits", "width_1", "width_2", "width_4",
             "channels_1", "channels_2", "channels_3", "cases_with_partial_last_window", "regions_ending_in_partial_window",
             "cases_nonintegral_window", "repo_tests_split_regions_checked") if c.get(k, 0) == 0]
