"""C20 - results never depend on an object's earlier use."""

import gc
import random

import auditok
from auditok import AudioRegion, Recorder
from auditok.io import BufferAudioSource
from auditok.util import AudioEnergyValidator

from .. import audiocommon as AC
from .. import tok
from ..gen import validity as G
from . import tokcommon as T

ID = "C20"
LEVEL = "exploration"
TIERS = {"quick": {"shards": 16, "budget_s": 120, "pair_len": 5, "random_pairs": 2500, "split_cases": 60, "validator_cases": 60},
         "thorough": {"shards": 16, "budget_s": 900, "pair_len": 7, "random_pairs": 150000, "split_cases": 4000, "validator_cases": 4000}}
RULE = ("(a) one StreamTokenizer object processes stream 1 (run to completion in list/callback/generator mode, generator "
        "consumed for j tokens and left suspended / closed / garbage-collected, generator created and never started) and then "
        "stream 2; the tokens of the second use must equal those of a fresh tokenizer with the same parameters.  Bounded-"
        "exhaustive: all ordered pairs of validity strings up to pair_len x all tuples with max_length<=3 (plus init-phase "
        "tuples) x the earlier-use modes, so stream 1 ends in every automaton state with every flag value; random longer "
        "pairs with max_length<=12.  (b) split() repeated 3x on the same AudioRegion / bytes / rewound Recorder gives identical "
        "regions.  (c) an AudioEnergyValidator gives the same verdict for the same window whatever it judged before "
        "(shuffled orders).  (d) BufferAudioSource close();open() restarts at the beginning.  Non-trivial = the second use "
        "delivers >=1 token/region; distinct = distinct (stream 1, stream 2, tuple, earlier-use mode).")
ASSUMPTIONS = [
    "a suspended generator of the earlier use is never resumed after the second use started (the statement does not cover interleaved use of one tokenizer)",
    "validators are pure functions of the frame content",
    "held means: held on the executions listed in coverage",
]
USES = ("complete-list", "complete-callback", "complete-generator", "partial-suspended", "partial-closed", "partial-collected", "never-started",
        "complete-generator-second-created-first", "partial-closed-during-second-use")
USES_RANDOM = USES + ("abandoned-in-a-cycle-collected-mid-run",)  # costs a full collection per case: random pairs only


def first_use(tk, v1, kind, use, j):
    frames, _ = tok.FRAME_KINDS[kind](v1)
    src = tok.CountingSource(frames)
    keep = None
    if use == "complete-list":
        tk.tokenize(src)
    elif use == "complete-callback":
        tk.tokenize(src, callback=lambda *a: None)
    elif use == "complete-generator":
        for _ in tk.tokenize(src, generator=True):
            pass
    elif use == "never-started":
        keep = tk.tokenize(src, generator=True)
    else:
        g = tk.tokenize(src, generator=True)
        for _ in range(j):
            try:
                next(g)
            except StopIteration:
                break
        if use == "partial-suspended":
            keep = g
        elif use == "partial-closed":
            g.close()
        else:
            del g  # refcount -> 0: CPython finalises the suspended generator right here
            if j == 3:
                gc.collect()
    return keep


def check_pair(ctx, v1, v2, params, kind, use, j, fresh_cache=None):
    frames2, validator = tok.FRAME_KINDS[kind](v2)
    key = (v2, params, kind)
    if fresh_cache is not None and key in fresh_cache:
        fresh = fresh_cache[key]
    else:
        fresh = tok.spans(tok.deliver(tok.make_tokenizer(validator, params), tok.CountingSource(frames2), "list"))
        if fresh_cache is not None:
            fresh_cache[key] = fresh
    tk = tok.make_tokenizer(validator, params)
    case = {"v1": "".join("A" if x else "a" for x in v1), "v2": "".join("A" if x else "a" for x in v2), "params": list(params),
            "kind": kind, "use": use, "j": j}
    try:
        if use == "complete-generator-second-created-first":
            # both generators are created up front; the first is run to completion, only then is the second consumed
            frames1, _ = tok.FRAME_KINDS[kind](v1)
            g1 = tk.tokenize(tok.CountingSource(frames1), generator=True)
            g2 = tk.tokenize(tok.CountingSource(frames2), generator=True)
            for _ in g1:
                pass
            keep = None
            second = [(t[1], t[2]) for t in g2]
        elif use == "partial-closed-during-second-use":
            # the abandoned generator of the earlier use is finalised (closed / collected) while the second run is paused between tokens
            frames1, _ = tok.FRAME_KINDS[kind](v1)
            g1 = tk.tokenize(tok.CountingSource(frames1), generator=True)
            for _ in range(j):
                try:
                    next(g1)
                except StopIteration:
                    break
            second = []
            for t in tk.tokenize(tok.CountingSource(frames2), generator=True):
                second.append((t[1], t[2]))
                if g1 is not None:
                    g1.close()
                    g1 = None
            keep = None
        elif use == "abandoned-in-a-cycle-collected-mid-run":
            # the earlier generator was advanced and then abandoned inside a reference cycle: the cyclic collector finalises it at
            # a moment of its own choosing - here inside the source's read(), while the second run is in the middle of a token
            frames1, _ = tok.FRAME_KINDS[kind](v1)
            g1 = tk.tokenize(tok.CountingSource(frames1), generator=True)
            for _ in range(max(1, j)):
                try:
                    next(g1)
                except StopIteration:
                    break
            cell = {"g": g1}
            cell["self"] = cell
            del g1, cell
            at = 1 + (j * 3 + len(frames2) // 2) % (len(frames2) + 1)

            class CollectingSource(tok.CountingSource):
                def read(self):
                    if self.calls + 1 == at:
                        gc.collect()
                    return tok.CountingSource.read(self)

            was = gc.isenabled()
            gc.disable()
            try:
                second = tok.spans(tok.deliver(tk, CollectingSource(frames2), ("list", "generator", "callback")[len(v1) % 3]))
            finally:
                if was:
                    gc.enable()
            keep = None
            ctx.count("generators_collected_in_the_middle_of_a_later_run")
        else:
            keep = first_use(tk, v1, kind, use, j)
            second = tok.spans(tok.deliver(tk, tok.CountingSource(frames2), ("list", "generator", "callback")[len(v1) % 3]))
    except Exception as exc:
        ctx.case(repr(case), True)
        ctx.violation("exception:" + type(exc).__name__, {"case": case, "exception": repr(exc)[:200]})
        return
    ctx.case(repr(case), bool(fresh))
    ctx.count("reuse_pairs")
    ctx.count("use_" + use)
    if second != fresh:
        extra = [t for t in second if t not in fresh]
        missing = [t for t in fresh if t not in second]
        mech = "reused-tokenizer-" + ("invents-token" if extra and not missing else "loses-token" if missing and not extra else "shifts-token")
        ctx.violation(f"{mech}-after-{use.split('-')[0]}-use", {"case": case, "second_use": second[:20], "fresh": fresh[:20]})
    elif fresh and ctx.want_sample():
        ctx.sample({"case": case, "tokens": second})
    del keep


def exhaustive_pairs(ctx, conf):
    tuples = G.param_tuples(3, init=False) + [p for p in G.param_tuples(3, init=True)]
    strings = [G.nth_string(i) for i in range(G.count_upto(conf["pair_len"]))]
    cache = {}
    c = 0
    for ti, params in enumerate(tuples):
        if not ctx.mine(ti):
            continue
        cache.clear()
        for v1 in strings:
            for v2 in strings:
                c += 1
                use = USES[c % len(USES)]
                check_pair(ctx, v1, v2, params, "tuple" if c % 2 else "char", use, c % 3, cache)
                ctx.count("exhaustive_pairs")
            if ctx.out_of_time():
                return


def random_pairs(ctx, conf):
    rng = ctx.rng("pairs")
    for i in range(conf["random_pairs"]):
        params = G.random_params(rng, 12)
        v1 = G.structured_random(rng, params, 60)
        v2 = G.structured_random(rng, params, 60)
        check_pair(ctx, v1, v2, params, rng.choice(tok.KIND_NAMES), rng.choice(USES_RANDOM), rng.randint(0, 3))
        if (i & 63) == 0 and ctx.out_of_time():
            return


def regions_of(gen):
    return [(r.start, r.end, bytes(r)) for r in gen]


def repeated_split(ctx, conf):
    rng = ctx.rng("split")
    for i in range(conf["split_cases"]):
        case = AC.random_split_case(rng, max_windows=40)
        built = AC.build_audio(case)
        if built is None:
            continue
        data, verdicts = built
        kw = AC.split_kwargs(case)
        cj = AC.case_json(case)
        try:
            reg = AudioRegion(data, case["rate"], case["width"], case["channels"])
            runs = {
                "region": [regions_of(reg.split(**kw)) for _ in range(3)],
                "bytes": [regions_of(auditok.split(data, **kw, **AC.audio_kwargs(case))) for _ in range(3)],
            }
            # rewound recorder: split, rewind, split, rewind, split
            rkw = {k: v for k, v in kw.items() if k not in ("analysis_window",)}
            rec = Recorder(data, block_dur=case["w"], **AC.audio_kwargs(case))
            rr = []
            for k in range(3):
                rr.append(regions_of(auditok.split(rec, **rkw)))
                rec.rewind()
            runs["recorder"] = rr
            # ... and with a read limit: beyond the end of the stream (the limit never bites: same regions as without it),
            # exactly at the end, or inside the stream (compared with its own first pass)
            nsamp = len(data) // (case["width"] * case["channels"])
            dur = nsamp / case["rate"]
            which = ("beyond", "exact", "inside")[i % 3]
            mr = {"beyond": dur + 1 + (i % 5), "exact": dur, "inside": dur * 0.6}[which]
            if nsamp and round(mr * case["rate"]) >= (nsamp if which != "inside" else 1):
                rec2 = Recorder(data, block_dur=case["w"], max_read=mr, **AC.audio_kwargs(case))
                rr = []
                for k in range(3):
                    rr.append(regions_of(auditok.split(rec2, **rkw)))
                    rec2.rewind()
                runs["recorder_with_max_read_" + which] = rr
                ctx.count("recorders_with_max_read_" + which)
            # one AudioReader over bytes: split it, close it, split it again (close() returns an in-memory source to its start)
            if case["w"] == case["block"] / case["rate"]:
                rd = auditok.AudioReader(data, block_dur=case["w"], **AC.audio_kwargs(case))
                rr2 = []
                for k in range(3):
                    rr2.append(regions_of(auditok.split(rd, **rkw)))
                    rd.close()
                runs["reader_closed_and_reused"] = rr2
                # ... also when the earlier use stopped half way
                rd2 = auditok.AudioReader(data, block_dur=case["w"], **AC.audio_kwargs(case))
                rd2.open()
                for _ in range(case["pcm_seed"] % 4):
                    rd2.read()
                rd2.close()
                runs["reader_partly_read_closed_and_reused"] = [regions_of(auditok.split(rd2, **rkw))]
            # interleaved: a second split() started while the first generator is half consumed
            g1 = reg.split(**kw)
            first = []
            try:
                first.append(next(g1))
            except StopIteration:
                pass
            other = regions_of(reg.split(**kw))
            first.extend(g1)
            runs["interleaved"] = [other, [(r.start, r.end, bytes(r)) for r in first]]
        except Exception as exc:
            ctx.violation("exception:" + type(exc).__name__, {"case": cj, "exception": repr(exc)[:300]})
            continue
        ctx.case(repr(("split", data, sorted(cj.items()))), bool(runs["bytes"][0]))
        ctx.count("repeated_split_cases")
        ref = runs["bytes"][0]
        for name, lst in runs.items():
            for k, r in enumerate(lst):
                ctx.count("repeated_splits_compared")
                if name == "recorder_with_max_read_inside" or (name.startswith("recorder") and case["w"] != case["block"] / case["rate"]):
                    # the recorder counts durations in its own (shorter) block duration: compare it with itself only
                    if r != lst[0]:
                        ctx.violation("repeated-split-of-rewound-recorder-differs", {"case": cj, "run": k})
                    continue
                if r != ref:
                    ctx.violation(f"repeated-split-of-{name}-differs", {"case": cj, "run": k, "n_regions": len(r), "n_expected": len(ref)})
                    break
        if ctx.out_of_time():
            return


def long_recorder(ctx):
    """a recorder that has seen tens of thousands of blocks: split, rewind, split, rewind, split - the same regions each time"""
    rng = ctx.rng("long-recorder")
    nblocks = rng.choice((33000, 40000, 66000)) + rng.randint(0, 500)
    loud, quiet = bytes([90]), bytes([0])
    data = b"".join((loud if (i // 37) % 3 else quiet) for i in range(nblocks))
    data = data[:32700] + loud * 200 + data[32900:]  # an event across block 32768
    kw = dict(min_dur=0.5, max_dur=20, max_silence=0.25, energy_threshold=20)
    case = {"long_recorder_blocks": nblocks, "rate": 8, "block_dur": 0.125}
    try:
        rec = Recorder(data, block_dur=0.125, sampling_rate=8, sample_width=1, channels=1)
        runs = []
        for k in range(3):
            runs.append(regions_of(auditok.split(rec, **kw)))
            rec.rewind()
        recorded = bytes(rec.data)
    except Exception as exc:
        ctx.violation("exception:" + type(exc).__name__, {"case": case, "exception": repr(exc)[:300]})
        return
    ctx.case(repr(("long-recorder", nblocks)), bool(runs[0]))
    ctx.count("long_recorder_cases")
    ctx.maxi("blocks_through_one_recorder", nblocks)
    ref = regions_of(auditok.split(data, analysis_window=0.125, sampling_rate=8, sample_width=1, channels=1, **kw))
    for k, r in enumerate(runs):
        if r != ref:
            ctx.violation("repeated-split-of-long-recorder-differs", {"case": case, "run": k, "n_regions": len(r), "n_expected": len(ref)})
            return
    if recorded != data:
        ctx.violation("long-recorder-data-differs-from-the-audio-read", {"case": case, "recorded": len(recorded), "read": len(data)})


def validator_orders(ctx, conf):
    rng = ctx.rng("validator")
    from ..gen import audio as A

    for i in range(conf["validator_cases"]):
        width, channels = rng.choice((1, 2, 4)), rng.choice((1, 2, 3))
        uc = rng.choice((None, "mix", 0, -1)) if channels > 1 else None
        lo, hi = A.THR_RANGE[width]
        thr = rng.uniform(lo, hi)
        windows = []
        for _ in range(rng.randint(2, 12)):
            n = rng.choice((1, 2, 5, 16))
            windows.append(rng.randbytes(n * width * channels) if rng.random() < 0.5 else bytes(n * width * channels))
        v = AudioEnergyValidator(thr, width, channels, use_channel=uc)
        base = [bool(AudioEnergyValidator(thr, width, channels, use_channel=uc).is_valid(w)) for w in windows]
        ok = True
        for _ in range(3):
            order = list(range(len(windows)))
            rng.shuffle(order)
            for k in order:
                ctx.count("validator_verdicts_compared")
                if bool(v.is_valid(windows[k])) != base[k]:
                    ctx.violation("validator-verdict-depends-on-history", {"case": {"width": width, "channels": channels, "uc": uc, "thr": thr,
                                                                                   "windows": [w.hex() for w in windows], "order": order, "at": k}})
                    ok = False
                    break
            if not ok:
                break
        # one mutable window object refilled in place (a capture buffer): the verdict follows the content, not the object
        import array

        import numpy as np

        longest = max(len(w) for w in windows)
        pool = [w for w in windows if len(w) == longest]
        if len(pool) >= 2 and ok:
            kind_ = rng.choice(("bytearray", "memoryview", "array", "numpy"))
            buf = bytearray(pool[0])
            if kind_ == "bytearray":
                obj = buf
            elif kind_ == "memoryview":
                obj = memoryview(buf)
            elif kind_ == "array":
                obj = array.array({1: "b", 2: "h", 4: "i"}[width], bytes(buf))
            else:
                obj = np.frombuffer(buf, dtype={1: np.int8, 2: np.int16, 4: np.int32}[width])
            for w in pool + pool[::-1]:
                if kind_ == "array":
                    obj[:] = array.array(obj.typecode, w)
                else:
                    buf[:] = w
                exp_ = bool(AudioEnergyValidator(thr, width, channels, use_channel=uc).is_valid(w))
                ctx.count("refilled_window_objects_checked")
                if bool(v.is_valid(obj)) != exp_:
                    ctx.violation("validator-verdict-depends-on-history", {"case": {"width": width, "channels": channels, "uc": uc, "thr": thr,
                                                                                   "reused_container": kind_, "windows": [x.hex() for x in pool]}})
                    break
        ctx.case(repr(("validator", width, channels, uc, thr, windows)), any(base))
        if ctx.out_of_time():
            return


def cross_thread_reuse(ctx):
    """the earlier, partially consumed generator was driven by ANOTHER thread that is still alive; the tokenizer is then used
    from this thread.  A watchdog thread runs the second use so that a hang is a verdict, not a stuck check."""
    rng = ctx.rng("threads")
    for i in range(12):
        params = G.param_tuples(3)[rng.randrange(56)]
        v1 = G.structured_random(rng, params, 12) + (1,) * params[1]
        v2 = G.structured_random(rng, params, 12)
        kind = rng.choice(("tuple", "char", "bytes"))
        cross_thread_case(ctx, v1, v2, params, kind, ("list", "generator", "callback")[i % 3])


def cross_thread_case(ctx, v1, v2, params, kind, delivery):
    import threading

    frames1, validator = tok.FRAME_KINDS[kind](v1)
    frames2, _ = tok.FRAME_KINDS[kind](v2)
    fresh = tok.spans(tok.deliver(tok.make_tokenizer(validator, params), tok.CountingSource(frames2), "list"))
    tk = tok.make_tokenizer(validator, params)
    started, release = threading.Event(), threading.Event()

    def earlier():
        g = tk.tokenize(tok.CountingSource(frames1), generator=True)
        try:
            next(g)
        except StopIteration:
            pass
        started.set()
        release.wait(20)  # stays alive, generator suspended

    t1 = threading.Thread(target=earlier, daemon=True)
    t1.start()
    started.wait(10)
    out = {}

    def later():
        try:
            out["tokens"] = tok.spans(tok.deliver(tk, tok.CountingSource(frames2), delivery))
        except Exception as exc:
            out["exc"] = repr(exc)[:200]

    t2 = threading.Thread(target=later, daemon=True)
    t2.start()
    t2.join(10)
    hung = t2.is_alive()
    release.set()
    t1.join(10)
    case = {"v1": "".join("A" if x else "a" for x in v1), "v2": "".join("A" if x else "a" for x in v2), "params": list(params), "kind": kind,
            "use": "partial-suspended-in-another-live-thread", "delivery": delivery}
    ctx.case(repr(case), bool(fresh))
    ctx.count("cross_thread_reuses")
    if hung:
        ctx.violation("reused-tokenizer-blocks-when-earlier-generator-lives-in-another-thread", {"case": case})
    elif "exc" in out:
        ctx.violation("exception:" + out["exc"].split("(")[0], {"case": case, "exception": out["exc"]})
    elif out.get("tokens") != fresh:
        ctx.violation("reused-tokenizer-shifts-token-after-partial-use", {"case": case, "second_use": out.get("tokens"), "fresh": fresh})


def checksum_colliding_windows(ctx):
    """two windows with the same CRC-32 and opposite verdicts (birthday search): a verdict cached under a checksum of the
    window would be wrong for the second one."""
    import zlib

    rng = ctx.rng("crc")
    width, channels, thr = 2, 1, 40.0
    n = 8
    loud, quiet = {}, {}
    pair = None
    for _ in range(400000):
        lw = struct_pack(rng, n, 2000, 30000)
        qw = struct_pack(rng, n, 0, 20)
        cl, cq = zlib.crc32(lw), zlib.crc32(qw)
        loud[cl] = lw
        quiet[cq] = qw
        if cl in quiet:
            pair = (lw, quiet[cl])
            break
        if cq in loud:
            pair = (loud[cq], qw)
            break
    if pair is None:
        ctx.note("no CRC-32 colliding loud/quiet pair found within the search budget")
        return
    judge_colliding_windows(ctx, pair[0], pair[1], width, channels, thr)


def judge_colliding_windows(ctx, lw, qw, width, channels, thr):
    for order in ((lw, qw), (qw, lw)):
        v = AudioEnergyValidator(thr, width, channels)
        got = [bool(v.is_valid(w)) for w in order] + [bool(v.is_valid(w)) for w in order]
        exp = [w is lw for w in order] * 2
        ctx.count("checksum_colliding_windows_judged", 4)
        ctx.case(("crc-windows", lw.hex(), qw.hex(), order[0] is lw), True)
        if got != exp:
            ctx.violation("validator-verdict-depends-on-history", {"case": {"width": width, "channels": channels, "thr": thr, "loud": lw.hex(), "quiet": qw.hex(),
                                                                           "same_crc32": True}, "got": got, "expected": exp})


def struct_pack(rng, n, lo, hi):
    import struct

    return struct.pack("<%dh" % n, *[rng.randint(lo, hi) * rng.choice((-1, 1)) for _ in range(n)])


def buffer_reopen(ctx):
    rng = ctx.rng("buffer")
    for i in range(300):
        width, channels = rng.choice((1, 2, 4)), rng.choice((1, 2))
        n = rng.randint(1, 20)
        data = rng.randbytes(n * width * channels)
        src = BufferAudioSource(data, 10, width, channels)
        src.open()
        for _ in range(rng.randint(0, 4)):
            src.read(rng.randint(1, 6))
        src.close()
        if i % 3 == 1:
            # the position is moved while the source is closed, then it is closed again and reopened
            try:
                if i % 2:
                    src.position = rng.randint(0, n)
                else:
                    src.position_s = rng.randint(0, n) / 10
            except Exception:
                pass
            src.close()
        src.open()
        got = src.read(n)
        ctx.case(repr(("buffer", data, width, channels)), True)
        ctx.count("buffer_reopen_cases")
        if got != data:
            ctx.violation("buffer-source-does-not-restart-after-close-open", {"case": {"data": data.hex(), "fmt": [10, width, channels]},
                                                                             "got_len": None if got is None else len(got)})


def run_shard(ctx):
    conf = TIERS[ctx.tier]
    if ctx.shard == 0:
        buffer_reopen(ctx)
    if ctx.shard == 1:
        cross_thread_reuse(ctx)
    if ctx.shard == 2:
        checksum_colliding_windows(ctx)
    validator_orders(ctx, conf)
    repeated_split(ctx, conf)
    if ctx.shard in (6, 10) or ctx.tier == "thorough":
        long_recorder(ctx)
    random_pairs(ctx, conf)
    exhaustive_pairs(ctx, conf)


def replay(ctx, case):
    if case.get("use") == "partial-suspended-in-another-live-thread":
        v1 = tuple(1 if ch == "A" else 0 for ch in case["v1"])
        v2 = tuple(1 if ch == "A" else 0 for ch in case["v2"])
        cross_thread_case(ctx, v1, v2, tuple(case["params"]), case["kind"], case.get("delivery", "list"))
    elif "loud" in case and "quiet" in case:
        judge_colliding_windows(ctx, bytes.fromhex(case["loud"]), bytes.fromhex(case["quiet"]), case["width"], case["channels"], case["thr"])
    elif "v1" in case and "j" in case:
        v1 = tuple(1 if ch == "A" else 0 for ch in case["v1"])
        v2 = tuple(1 if ch == "A" else 0 for ch in case["v2"])
        check_pair(ctx, v1, v2, tuple(case["params"]), case["kind"], case["use"], case["j"])
    else:
        ctx.note("re-running the seeded workload of shard 0")
        run_shard(ctx)


def inconclusive(merged, tier):
    c = merged["counters"]
    need = ["reuse_pairs", "exhaustive_pairs", "long_recorder_cases", "generators_collected_in_the_middle_of_a_later_run", "repeated_split_cases", "repeated_splits_compared", "validator_verdicts_compared", "refilled_window_objects_checked", "cross_thread_reuses", "checksum_colliding_windows_judged",
            "buffer_reopen_cases"] + ["use_" + u for u in USES]
    return [f"monitor never observed {k}" for k in need if c.get(k, 0) == 0]


def evidence_extra(merged, tier):
    return {"exhaustive_core": f"all ordered pairs of validity strings len<={TIERS[tier]['pair_len']} x tuples max_length<=3 (56 plain + init-phase) x 7 earlier-use modes (rotating)",
            "exhaustive_core_complete": not merged["truncated_by_time"]}
