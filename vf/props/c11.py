"""C11 - audio sources hand out successive whole-sample chunks, then None."""

import io
import random
import math
import os
import shutil
import sys
import tempfile
import threading
import wave
from fractions import Fraction

from auditok.exceptions import AudioIOError

from ..gen import audio as A
from auditok.io import BufferAudioSource, RawAudioSource, StdinAudioSource, WaveAudioSource

ID = "C11"
LEVEL = "exploration"
TIERS = {"quick": {"shards": 16, "budget_s": 120, "random": 1200, "exh_len": 3, "long": 25},
         "thorough": {"shards": 16, "budget_s": 900, "random": 60000, "exh_len": 5, "long": 2500}}
RULE = ("Operation histories on the four source kinds (BufferAudioSource, RawAudioSource, WaveAudioSource, StdinAudioSource fed "
        "through a real os.pipe by a writer that dribbles 1-7-byte, sample-unaligned chunks) run in lock-step on the same "
        "audio (widths 1/2/4, 1-3 channels, 0..40 samples).  Operations: read(n>0), read(negative), read(None), read(0), "
        "position=int (any sign, in/out of range), position_s=float, position_ms=int, rewind, close, open, read while closed.  "
        "Oracle SRC (a cursor over the sample list): every chunk is whole samples, has exactly min(n, remaining) samples, "
        "chunks concatenate to the audio from the cursor, None (never b'') when nothing remains, I/O error when not open, "
        "position reads back the samples consumed, setters move the next read (seconds/ms: floor or ceil of rate*t, then "
        "from-the-end if negative), IndexError out of range, rewind/close -> 0.  Bounded-exhaustive: all histories of "
        "length<=exh_len over a 12-symbol alphabet on the buffer source; random longer histories on all kinds.  Non-trivial = "
        ">=1 non-empty read; distinct = distinct (audio, format, history).")
ASSUMPTIONS = [
    "read(0) has only a weak oracle (no data, no b'', cursor unchanged): the statement does not define it",
    "sub-sample instants resolve to either neighbouring sample, applied before 'negative counts from the end'",
    "streams fed to file/stdin sources are whole samples (mid-sample ends are outside the statement)",
    "re-opening a raw/wav FILE source starts a new pass over the file (what opening a file means; the statement spells the restart out only for the buffer source); standard input is a stream: closing and re-opening the source, or creating a second source object on it, resumes where reading stopped (anything else would hand out overlapping chunks)",
    "held means: held on the executions listed in coverage",
]
IOERR = (AudioIOError, OSError)


# ---- SRC model --------------------------------------------------------------
class Model:
    def __init__(self, nsamples, rate):
        self.n = nsamples
        self.rate = rate
        self.pos = 0
        self.open = False

    def read(self, n):
        """-> ('err',) | ('none',) | ('data', a, b) | ('zero',)"""
        if not self.open:
            return ("err",)
        if n == 0:
            return ("zero",)
        rem = self.n - self.pos
        k = rem if (n is None or n < 0) else min(n, rem)
        if k <= 0:
            return ("none",)
        a = self.pos
        self.pos += k
        return ("data", a, a + k)

    def candidates(self, x):
        """x = exact (Fraction) sample position requested -> admissible cursor values (None = out of range)."""
        out = set()
        for c in {math.floor(x), math.ceil(x)}:
            if c < 0:
                c += self.n
            out.add(c if 0 <= c <= self.n else None)
        return out


# ---- running one history on one real source -------------------------------------
from ..stdin import PipeStdin  # noqa: E402  (a real pipe + BufferedReader + fileno, fed in 1-7-byte chunks)


def make_source(kind, data, fmt, tmpdir, rng):
    rate, width, channels = fmt
    if kind == "buffer":
        return BufferAudioSource(data, rate, width, channels), (lambda: None)
    through_link = rng.random() < 0.25
    if kind == "raw":
        path = os.path.join(tmpdir, "s.raw")
        if through_link:
            from .. import audiocommon as AC_

            path, decoy = AC_.path_through_symlink(tmpdir, "s.raw")  # <tmp>/lnk/../s.raw is <tmp>/deep/s.raw, whatever a string clean-up thinks
            with open(decoy, "wb") as fp:
                fp.write(bytes(len(data) + width * channels))
        with open(path, "wb") as fp:
            fp.write(data)
        return RawAudioSource(path, rate, width, channels), (lambda: None)
    if kind == "wav":
        path = os.path.join(tmpdir, "s.wav")
        if through_link:
            from .. import audiocommon as AC_

            path, decoy = AC_.path_through_symlink(tmpdir, "s.wav")
            with wave.open(decoy, "wb") as fp:
                fp.setframerate(rate), fp.setsampwidth(width), fp.setnchannels(channels)
                fp.writeframes(bytes(len(data) + width * channels))
        from .. import audiocommon as AC2_

        AC2_.write_wav(path, data, rate, width, channels, trailing_chunk=rng.random() < 0.4)  # a LIST chunk after the audio is not audio
        return WaveAudioSource(path), (lambda: None)
    if kind == "raw_fifo":
        # a "raw file" that is a named pipe fed by a bursty writer: sizes reported by the file system mean nothing, reads may
        # come back short at the OS level
        import time as _time

        path = os.path.join(tmpdir, "s.fifo")
        if os.path.exists(path):
            os.unlink(path)
        os.mkfifo(path)
        chunks, i = [], 0
        while i < len(data):
            k = rng.randint(1, 7)
            chunks.append(data[i : i + k])
            i += k

        def feed():
            try:
                with open(path, "wb", buffering=0) as w:
                    for c in chunks:
                        w.write(c)
                        _time.sleep(0)
            except OSError:
                pass

        th = threading.Thread(target=feed, daemon=True, name="vf-fifo-feeder")
        th.start()

        def cleanup_fifo():
            # release a writer still blocked in open() (the source was never opened) and wait for it
            fd = None
            try:
                fd = os.open(path, os.O_RDONLY | os.O_NONBLOCK)  # a reader exists until the writer is through (its data fits the pipe)
            except OSError:
                pass
            th.join(5)
            if fd is not None:
                os.close(fd)

        return RawAudioSource(path, rate, width, channels), cleanup_fifo
    if kind == "stdin":
        old = sys.stdin
        if rng.random() < 0.3:
            ps = PipeStdin(data, rng, header=b"#audio rate=%d width=%d channels=%d\n" % (rate, width, channels))
            ps.consume_header()
        else:
            ps = PipeStdin(data, rng)
        sys.stdin = ps
        try:
            src = StdinAudioSource(rate, width, channels)
        finally:
            sys.stdin = old
        make_source.last_stdin = ps
        return src, ps.close
    if kind == "stdin_file":
        # `prog < audio.raw`: standard input is a regular (seekable) file
        path = os.path.join(tmpdir, "stdin.raw")
        with open(path, "wb") as fp:
            fp.write(data)

        class _FileStdin:
            def __init__(self, p):
                self.buffer = open(p, "rb")

            def fileno(self):
                return self.buffer.fileno()

        fs = _FileStdin(path)
        old = sys.stdin
        sys.stdin = fs
        try:
            src = StdinAudioSource(rate, width, channels)
        finally:
            sys.stdin = old
        make_source.last_stdin = fs
        return src, fs.buffer.close
    if kind == "stdin_big_chunks":
        old = sys.stdin
        ps = PipeStdin(data, rng, max_chunk=8192, lockstep=False)
        sys.stdin = ps
        try:
            src = StdinAudioSource(rate, width, channels)
        finally:
            sys.stdin = old
        make_source.last_stdin = ps
        return src, ps.close
    raise ValueError(kind)


def applicable(kind, op):
    name = op[0]
    if kind == "buffer":
        return True
    if name in ("pos", "pos_s", "pos_ms", "rewind", "getpos"):
        return False
    if kind.startswith("stdin") and name == "read" and (op[1] is None or op[1] < 0):
        return False
    if name == "second_source" and not kind.startswith("stdin"):
        return False
    if kind == "raw_fifo" and name in ("close", "open") and op != ("open",):
        return False
    return True


def run_history(ctx, kind, data, fmt, ops, tmpdir, rng):
    rate, width, channels = fmt
    bps = width * channels
    n = len(data) // bps
    case = {"kind": kind, "fmt": list(fmt), "data": (data.hex() if len(data) <= 4096 else None), "nbytes": len(data), "ops": [list(o) for o in ops]}
    if len(data) > 4096:
        case["data_is"] = "random.Random(data_seed).randbytes(nbytes); see long_buffer_histories"
    src, cleanup = make_source(kind, data, fmt, tmpdir, rng)
    stdin_obj = [getattr(make_source, "last_stdin", None)]
    m = Model(n, rate)
    nonempty = 0
    closed_for_good = False
    try:
        if (src.sampling_rate, src.sample_width, src.channels) != (rate, width, channels):
            ctx.violation("source-audio-parameters-wrong", {"case": case})
            return
        for i, op in enumerate(ops):
            if not applicable(kind, op):
                continue
            name = op[0]
            if kind == "raw_fifo" and name == "open" and m.open:
                continue  # (opening a named pipe a second time blocks for ever once its writer is gone: a hang is not a verdict)
            w = {"case": case, "op_index": i, "op": list(op), "model_pos": m.pos}
            ctx.count("ops_" + name)
            if name == "open":
                src.open()
                m.open = True
            elif name == "close":
                src.close()
                m.open = False
                if kind.startswith("stdin"):
                    pass  # standard input is a stream: what was handed out is gone, reading resumes where it stopped
                else:
                    m.pos = 0  # buffer: stated; raw/wav file: re-opening a file starts a new pass over it
            elif name == "second_source":
                if kind.startswith("stdin"):
                    # another source object on the same process-wide standard input carries on where the first stopped
                    old_stdin = sys.stdin
                    sys.stdin = stdin_obj[0]
                    try:
                        src2 = StdinAudioSource(rate, width, channels)
                    finally:
                        sys.stdin = old_stdin
                    if m.open:
                        src2.open()
                    src = src2
                    ctx.count("second_source_objects_on_one_stdin")
            elif name == "read":
                exp = m.read(op[1])
                size = op[1]
                if isinstance(size, int) and (i + len(ops)) % 4 == 1:
                    import numpy as _np

                    size = (_np.int64, _np.int32, _np.intp)[i % 3](size)  # sizes that come out of numpy arithmetic
                    ctx.count("reads_with_numpy_integer_sizes")
                try:
                    got = src.read(size)
                except IOERR as exc:
                    if exp[0] != "err":
                        ctx.violation("read-raises-io-error-on-open-source", dict(w, exception=repr(exc)[:200]))
                        return
                    ctx.count("io_errors_when_not_open")
                    continue
                except Exception as exc:
                    ctx.violation("read-raises:" + type(exc).__name__, dict(w, exception=repr(exc)[:200]))
                    return
                if exp[0] == "err":
                    ctx.violation("read-on-closed-source-does-not-raise", dict(w, got=repr(got)[:80]))
                    return
                if exp[0] == "zero":
                    if got is not None and len(got) != 0:
                        ctx.violation("read(0)-returns-data", dict(w, got_len=len(got)))
                        return
                    if got is not None:
                        ctx.violation("empty-bytes-instead-of-None", w)
                        return
                    continue
                if exp[0] == "none":
                    ctx.count("reads_at_end")
                    if got is not None:
                        key = "empty-bytes-instead-of-None" if len(got) == 0 else "data-returned-past-the-end"
                        ctx.violation(key, dict(w, got_len=len(got)))
                        return
                    continue
                _, a, b = exp
                if got is None:
                    ctx.violation("None-returned-while-data-remains", dict(w, expected_samples=[a, b]))
                    return
                if len(got) % bps:
                    ctx.violation("chunk-not-whole-samples", dict(w, got_len=len(got)))
                    return
                nonempty += 1
                if len(got) != (b - a) * bps:
                    ctx.violation("chunk-size-not-min(n,remaining)", dict(w, got_samples=len(got) // bps, expected_samples=b - a))
                    return
                if bytes(got) != data[a * bps : b * bps]:
                    key = "chunk-content-wrong"
                    at = data.find(bytes(got))
                    if at >= 0 and at % bps == 0:
                        key = "chunk-from-wrong-position"
                    ctx.violation(key, dict(w, expected_samples=[a, b], found_at_sample=(at // bps if at >= 0 and at % bps == 0 else None)))
                    return
                ctx.count("chunks_checked")
            elif name == "getpos":
                p = src.position
                ctx.count("position_reads")
                if p != m.pos:
                    ctx.violation("position-not-samples-consumed", dict(w, got=p))
                    return
                ps, pms = src.position_s, src.position_ms
                if abs(ps - m.pos / rate) > 1e-9 or abs(pms - 1000 * Fraction(m.pos, rate)) >= 1:
                    ctx.violation("position_s-or-position_ms-inconsistent", dict(w, position_s=ps, position_ms=pms))
                    return
            elif name == "rewind":
                src.rewind()
                m.pos = 0
            elif name in ("pos", "pos_s", "pos_ms"):
                if name == "pos" and isinstance(op[1], str):
                    # an integer of several thousand digits (written symbolically in the case so that it can be printed)
                    op = (name, int(op[1][0] + "1") * 10 ** int(op[1].split("**")[1]))
                if name == "pos":
                    x = Fraction(op[1])
                elif name == "pos_s":
                    x = Fraction(op[1]) * rate
                else:
                    x = Fraction(op[1] * rate, 1000)
                cands = m.candidates(x)
                try:
                    if name == "pos":
                        src.position = op[1]
                    elif name == "pos_s":
                        src.position_s = op[1]
                    else:
                        src.position_ms = op[1]
                    raised = False
                except IndexError:
                    raised = True
                except Exception as exc:
                    ctx.violation(f"{name}-setter-raises:{type(exc).__name__}", dict(w, exception=repr(exc)[:200]))
                    return
                ctx.count("position_sets")
                if raised:
                    ctx.count("position_index_errors")
                    if None not in cands:
                        ctx.violation("IndexError-for-in-range-position", dict(w, admissible=sorted(c for c in cands if c is not None)))
                        return
                    continue  # cursor unchanged
                if cands == {None}:
                    ctx.violation("out-of-range-position-accepted", dict(w, position_now=src.position))
                    return
                p = src.position
                if p not in cands:
                    ctx.violation("position-setter-lands-elsewhere", dict(w, position_now=p, admissible=sorted(c for c in cands if c is not None)))
                    return
                if x < 0:
                    ctx.count("negative_position_sets")
                m.pos = p
        ctx.case(repr((kind, fmt, data, ops)), nonempty > 0)
        ctx.count("histories_" + kind)
        if nonempty and ctx.want_sample():
            ctx.sample({"kind": kind, "fmt": list(fmt), "nsamples": n, "ops": [list(o) for o in ops][:12]})
    except Exception as exc:
        ctx.violation("exception:" + type(exc).__name__, {"case": case, "exception": repr(exc)[:300]})
    finally:
        try:
            src.close()
        except Exception:
            pass
        cleanup()


ALPHABET = [("read", 1), ("read", 2), ("read", 5), ("read", -1), ("read", None), ("read", 0), ("getpos",), ("rewind",),
            ("close",), ("open",), ("pos", -1), ("pos", 2)]


def random_ops(rng, n, rate):
    ops = [("open",)] if rng.random() < 0.9 else []
    for _ in range(rng.randint(1, 14)):
        r = rng.random()
        if r < 0.45:
            ops.append(("read", rng.choice((1, 1, 2, 3, 4, 7, n, n + 1, 100, -1, -5, None, 0))))
        elif r < 0.55:
            ops.append(("getpos",))
        elif r < 0.65:
            ops.append(("pos", rng.choice((0, 1, n, n + 1, -1, -n, -n - 1, rng.randint(-n - 2, n + 2), 10 ** 9, -10 ** 9, "+10**5000", "-10**4400"))))
        elif r < 0.75:
            t = rng.choice((0.0, rng.randint(-n - 1, n + 1) / rate, rng.uniform(-(n + 1) / rate, (n + 1) / rate),
                            (rng.randint(0, n) + 0.5) / rate, -1e-5, 1e-5, -(rng.randint(0, n) + 0.25) / rate))
            ops.append(("pos_s", t))
        elif r < 0.82:
            ops.append(("pos_ms", rng.choice((0, 1, -1, rng.randint(-1000 * (n + 1) // rate - 2, 1000 * (n + 1) // rate + 2)))))
        elif r < 0.88:
            ops.append(("rewind",))
        elif r < 0.93:
            ops.append(("close",))
        elif r < 0.96:
            ops.append(("second_source",))
        else:
            ops.append(("open",))
    ops.append(("getpos",))
    return ops


def exhaustive(ctx, conf, tmpdir):
    import itertools
    import random

    rng = random.Random(0)
    data1 = bytes(range(1, 7))  # 6 samples, width 1 mono
    data2 = bytes(range(1, 25))  # 6 samples, width 2 stereo
    idx = 0
    for L in range(1, conf["exh_len"] + 1):
        for ops in itertools.product(ALPHABET, repeat=L):
            idx += 1
            if not ctx.mine(idx):
                continue
            seq = [("open",)] + list(ops)
            if idx % 2:
                run_history(ctx, "buffer", data1, (10, 1, 1), seq, tmpdir, rng)
            else:
                run_history(ctx, "buffer", data2, (10, 2, 2), seq, tmpdir, rng)
            ctx.count("exhaustive_histories")
        if ctx.out_of_time():
            return


def long_buffer_histories(ctx, conf, tmpdir):
    """seconds of audio at real-world rates: positions in milliseconds / seconds whose sample index is an exact integer
    (so there is exactly one admissible answer) but whose floating-point route may not be."""
    rng = ctx.rng("long")
    for i in range(conf["long"]):
        rate = rng.choice((8000, 16000, 44100, 48000, 22050, 100))
        width, channels = rng.choice(((1, 1), (2, 1), (1, 2)))
        n = 2 * rate + rng.randint(0, 50)
        data_seed = rng.getrandbits(32)
        data = random.Random(data_seed).randbytes(n * width * channels)
        ops = [("open",)]
        for _ in range(12):
            r = rng.random()
            if r < 0.45:
                ms = rng.choice((rng.randint(0, 2000), rng.randint(-2000, 0), 1001, 1023, 9, 145, 350, 290))
                ops += [("pos_ms", ms), ("getpos",), ("read", rng.randint(1, 5))]
            elif r < 0.8:
                k = rng.randint(-n, n)
                t = rng.choice((k / rate, rng.randint(-2000, 2000) / 1000, rng.randint(0, 20000) / 10000))
                ops += [("pos_s", t), ("getpos",), ("read", rng.randint(1, 5))]
            else:
                ops += [("pos", rng.randint(-n, n)), ("read", 3), ("getpos",)]
        run_history(ctx, "buffer", data, (rate, width, channels), ops, tmpdir, rng)
        ctx.count("long_buffer_histories")


def large_stdin_reads(ctx, tmpdir):
    """single reads of more than 64 KiB from standard input (pipe and regular file)."""
    rng = ctx.rng("bigreads")
    width, channels, rate = rng.choice(((2, 1), (1, 3), (4, 2))), None, 16000
    width, channels = width
    bps = width * channels
    n = 300000 // bps
    data = rng.randbytes(n * bps)
    for kind in ("stdin_big_chunks", "stdin_file"):
        sizes = [70000 // bps + 3, 5, 100000 // bps, 66000 // bps, n]
        ops = [("open",)] + [("read", k) for k in sizes] + [("read", 10)]
        run_history(ctx, kind, data, (rate, width, channels), ops, tmpdir, rng)
        ctx.count("large_stdin_read_histories")


def run_shard(ctx):
    conf = TIERS[ctx.tier]
    if ctx.shard == ctx.nshards - 1 and not ctx.replay:
        # the repository's own 579 tests as one more workload, with the passive audio-source monitor riding on every call they make
        from .. import repotests

        repotests.run(ctx, "source")
    tmpdir = tempfile.mkdtemp(prefix="vf-c11-")
    try:
        if ctx.shard in (4, 5):
            large_stdin_reads(ctx, tmpdir)
        long_buffer_histories(ctx, conf, tmpdir)
        exhaustive(ctx, conf, tmpdir)
        rng = ctx.rng("random")
        for i in range(conf["random"]):
            width = rng.choice((1, 2, 4))
            channels = rng.choice((1, 2, 3))
            rate = rng.choice((4, 10, 16, 1000, 8000, 44100))
            n = rng.choice((0, 1, 2, rng.randint(0, 12), rng.randint(0, 40)))
            data = A.random_bytes(rng, n, width, channels)
            n = len(data) // (width * channels)
            ops = random_ops(rng, n, rate)
            # the same history on every kind, in lock-step on the same audio
            for kind in ("buffer", "raw", "wav", "stdin", "stdin_file") + (("raw_fifo",) if i % 4 == 0 else ()):
                run_history(ctx, kind, data, (rate, width, channels), ops, tmpdir, rng)
            if (i & 15) == 0 and ctx.out_of_time():
                break
    finally:
        shutil.rmtree(tmpdir, ignore_errors=True)


def replay(ctx, case):
    import random

    tmpdir = tempfile.mkdtemp(prefix="vf-c11-")
    try:
        ops = [tuple(o) for o in case["ops"]]
        run_history(ctx, case["kind"], bytes.fromhex(case["data"]), tuple(case["fmt"]), ops, tmpdir, random.Random(0))
    finally:
        shutil.rmtree(tmpdir, ignore_errors=True)


def inconclusive(merged, tier):
    c = merged["counters"]
    need = ["chunks_checked", "reads_at_end", "io_errors_when_not_open", "position_reads", "position_sets", "position_index_errors",
            "negative_position_sets", "histories_buffer", "histories_raw", "histories_wav", "histories_stdin", "histories_stdin_file", "histories_raw_fifo", "reads_with_numpy_integer_sizes", "large_stdin_read_histories", "second_source_objects_on_one_stdin", "exhaustive_histories",
            "ops_pos_s", "ops_pos_ms", "ops_rewind", "ops_close", "long_buffer_histories", "repo_tests_source_reads_checked"]
    return [f"monitor never observed {k}" for k in need if c.get(k, 0) == 0]
