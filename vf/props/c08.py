"""C08 - detection is online: bounded latency, lazy reading, prefix-consistent output."""

import io
import sys

import auditok
from auditok.io import BufferAudioSource, RawAudioSource, WaveAudioSource

from .. import audiocommon as AC
from .. import tok
from ..gen import validity as G
from . import tokcommon as T

ID = "C08"
LEVEL = "exploration"
TIERS = {
    "quick": {"shards": 16, "budget_s": 120, "L": 8, "Li": 6, "max_len_init": 4, "random": 1200, "max_frames": 300,
              "prefix_streams": 150, "prefix_len": 16, "split_cases": 60},
    "thorough": {"shards": 16, "budget_s": 900, "L": 11, "Li": 9, "max_len_init": 5, "random": 40000, "max_frames": 2000,
                 "prefix_streams": 6000, "prefix_len": 40, "split_cases": 4000},
}
RULE = ("Instrumented source counts read() calls; at the instant each token reaches the consumer (generator item / callback "
        "call) the monitor records how many frames (incl. the end marker) were handed out.  Oracle: end <= reads-1 <= "
        "end+max_continuous_silence+1, equality on the left for a full-length token (an end-of-stream flush obeys the same "
        "bound, so buffering until EOS is not excused); exactly one end-of-stream request and no read after it; list == "
        "generator == callback; for every cut point c of a stream, tokens(prefix c) == the whole-stream tokens delivered before "
        "frame c, plus possibly one flushed token that is a same-start, not longer version of the next whole-stream token.  "
        "split(): samples handed out by counting Buffer/Raw/Wave sources and a counting stdin when each region is yielded <= "
        "(last_window+max_silence_windows+2)*block.  Workload as C01 + all cut points of streams up to prefix_len frames + "
        "long streams.  Non-trivial = >=1 token/region; distinct = distinct (string, tuple[, cut point]).")
ASSUMPTIONS = [
    "latency is measured in source reads (logical time), never wall-clock",
    "list mode cannot be observed token by token; it is compared with the other two modes instead",
    "held means: held on the executions listed in coverage",
]


def timed_run(v, params, kind, delivery, tk=None):
    """-> (tokens, [reads at delivery], src).  tk: reuse this tokenizer object (the three delivery
    modes are modes of ONE tokenizer; its earlier runs must not show)."""
    frames, validator = tok.FRAME_KINDS[kind](v)
    if len(v) > 2 and (len(v) * 5 + params[1]) % 7 == 3:
        # a source whose read() delegates to an implementation that is re-pointed after some frames (live phase, then cached phase)
        src = tok.SwitchingSource(frames, 1 + (len(v) + params[0]) % (len(v) - 1))
    elif len(v) > 1 and (len(v) * 3 + params[0]) % 5 == 2:
        # a source that is also iterable / indexable for the application's own purposes (with a header read() never returns)
        src = tok.SequenceSource(frames, frames[:2], legacy=len(v) % 2 == 0)
    else:
        src = tok.CountingSource(frames)
    if tk is None:
        tk = tok.make_tokenizer(validator, params)
    at = []
    tokens = tok.deliver(tk, src, delivery, on_token=lambda t, late: at.append(src.reads))
    return tokens, at, src


def check_latency(ctx, v, params, kind, origin):
    min_len, max_len, max_sil = params[0], params[1], params[2]
    import numpy as _np

    # how the caller spells generator=True: the literal, 1, or what numpy comparisons give
    gi = (len(v) * 3 + params[1] + params[0]) % 4
    tok.GEN_FLAG[0] = (True, 1, _np.True_, _np.int8(1))[gi]
    ctx.count("generator_flag_spelled_" + ("True", "1", "numpy.True_", "numpy.int8(1)")[gi])
    case = T.case_of(v, params, kind, "generator" + ("", "|gen=1", "|gen=np", "|gen=int8")[gi])
    n = len(v)
    seqs = {}
    shared = None
    if (len(v) + params[0] + params[2]) % 2:  # half of the cases: one tokenizer object serves all three modes
        shared = tok.make_tokenizer(tok.FRAME_KINDS[kind](v)[1], params)
        ctx.count("cases_one_tokenizer_for_all_modes")
    order = ("generator", "callback", "list") if len(v) % 3 else ("list", "callback", "generator")
    stale = None
    if shared is not None and len(v) >= 3 and (len(v) + params[1]) % 3 == 0:
        # an earlier, abandoned generator of the same tokenizer is still around; it gets finalised in the middle of a later run
        fr0, _ = tok.FRAME_KINDS[kind](v[: max(2, len(v) // 2)] + (1,) * params[1])
        stale = shared.tokenize(tok.CountingSource(fr0), generator=tok.GEN_FLAG[0])
        if not hasattr(stale, "__next__"):
            ctx.violation("generator-mode-returns-a-list", {"case": case, "flag": repr(tok.GEN_FLAG[0]), "returned": type(stale).__name__})
            return None
        try:
            next(stale)
        except StopIteration:
            stale = None
        ctx.count("cases_with_a_stale_generator_finalised_mid_run")
    pre = None
    if shared is not None and stale is None and (len(v) + params[0]) % 4 == 1:
        # the generator-mode run is requested first, the other modes run to completion, and only then is it consumed
        frames_g, _ = tok.FRAME_KINDS[kind](v)
        src_g = tok.CountingSource(frames_g)
        pre = (shared.tokenize(src_g, generator=tok.GEN_FLAG[0]), src_g)
        if not hasattr(pre[0], "__next__"):
            ctx.violation("generator-mode-returns-a-list", {"case": case, "flag": repr(tok.GEN_FLAG[0]), "returned": type(pre[0]).__name__})
            return None
        order = ("callback", "list", "generator")
        ctx.count("cases_generator_requested_before_the_other_modes_ran")
    for delivery in order:
        try:
            if pre is not None and delivery == "generator":
                g_, src = pre
                tokens, at = [], []
                for t in g_:
                    tokens.append(tuple(t))
                    at.append(src.reads)
            elif stale is not None and delivery in ("generator", "callback"):
                frames_, _ = tok.FRAME_KINDS[kind](v)
                src = tok.CountingSource(frames_)
                at, tokens = [], []
                holder = [stale]
                stale = None

                def on_tok(t, late, _h=holder, _src=src, _at=at):
                    _at.append(_src.reads)
                    if _h[0] is not None:
                        _h[0].close()
                        _h[0] = None

                tokens = tok.deliver(shared, src, delivery, on_token=on_tok)
            else:
                tokens, at, src = timed_run(v, params, kind, delivery, shared)
        except Exception as exc:
            ctx.violation("exception:" + type(exc).__name__, {"case": dict(case, delivery=delivery), "exception": repr(exc)[:200]})
            return None
        seqs[delivery] = [(s, e) for _, s, e in tokens]
        if src.eos_returns != 1 or src.reads_after_eos:
            ctx.violation("end-of-stream-not-requested-exactly-once",
                          {"case": dict(case, delivery=delivery), "eos_returns": src.eos_returns, "reads_after_eos": src.reads_after_eos})
        if delivery == "list":
            continue
        for (data, s, e), reads in zip(tokens, at):
            ctx.count("deliveries_timed")
            last_read = reads - 1  # index of the last frame handed out (n == the end marker)
            ln = e - s + 1
            lo, hi = e, e + max(max_sil, 0) + 1
            if ln == max_len:
                hi = e
                ctx.count("full_length_tokens_timed")
            if last_read == n:
                ctx.count("tokens_delivered_at_end_of_stream")
            if not (lo <= last_read <= hi):
                key = "token-delivered-late" if last_read > hi else "token-delivered-before-its-last-frame-was-read"
                if last_read == n and last_read > hi:
                    key = "token-held-back-until-end-of-stream"
                ctx.violation(key, {"case": dict(case, delivery=delivery), "token": [s, e], "frames_read_at_delivery": reads,
                                    "allowed_last_read_index": [lo, hi], "stream_len": n})
                return None
    if not (seqs["list"] == seqs["generator"] == seqs["callback"]):
        ctx.violation("delivery-modes-disagree", {"case": case, "sequences": seqs})
        return None
    ctx.case((v, params), bool(seqs["list"]))
    ctx.count("cases_" + origin)
    if seqs["list"] and ctx.want_sample():
        ctx.sample({"case": case, "tokens": seqs["list"]})
    return seqs["generator"]


def check_prefixes(ctx, v, params, kind):
    """all cut points of one stream."""
    case = T.case_of(v, params, kind, "generator")
    try:
        whole, at, _ = timed_run(v, params, kind, "generator")
    except Exception as exc:
        ctx.violation("exception:" + type(exc).__name__, {"case": case, "exception": repr(exc)[:200]})
        return
    W = [(s, e) for _, s, e in whole]
    d = [a - 1 for a in at]  # index of the deciding read of each whole-stream token
    shared = tok.make_tokenizer(tok.FRAME_KINDS[kind](v)[1], params) if len(v) % 2 else None
    for c in range(len(v) + 1):
        try:
            ptoks, pat, _ = timed_run(v[:c], params, kind, "generator", shared)
        except Exception as exc:
            ctx.violation("exception:" + type(exc).__name__, {"case": dict(case, cut=c), "exception": repr(exc)[:200]})
            return
        P = [(s, e) for _, s, e in ptoks]
        ctx.case((v, params, c), bool(P))
        ctx.count("prefix_runs")
        before = [t for t, a in zip(P, pat) if a - 1 < c]      # delivered before the prefix's end marker
        flushed = [t for t, a in zip(P, pat) if a - 1 >= c]    # delivered by the end-of-stream flush
        exp_before = [t for t, dk in zip(W, d) if dk < c]
        w = {"case": dict(case, cut=c), "prefix_tokens": P, "whole_tokens": W[:len(P) + 2]}
        if before != exp_before:
            ctx.violation("prefix-tokens-differ-from-whole-stream", w)
            return
        if len(flushed) > 1:
            ctx.violation("more-than-one-token-flushed-at-end-of-stream", w)
            return
        if flushed:
            ctx.count("prefix_flush_tokens")
            k = len(before)
            if k >= len(W) or W[k][0] != flushed[0][0] or W[k][1] < flushed[0][1]:
                ctx.violation("flushed-prefix-token-is-not-a-shorter-version-of-the-whole-stream-token", w)
                return
            if W[k][1] > flushed[0][1]:
                ctx.count("prefix_flush_tokens_strictly_shorter")


# ---- split(): lazy reading -----------------------------------------------
class _Count:
    samples_out = 0
    reads = 0


def counting(cls):
    class Counting(cls):
        def read(self, size):
            data = super().read(size)
            self.vf_reads = getattr(self, "vf_reads", 0) + 1
            if data is not None:
                self.vf_samples = getattr(self, "vf_samples", 0) + len(data) // (self.sample_width * self.channels)
            return data

    Counting.__name__ = "Counting" + cls.__name__
    return Counting


CBuffer, CRaw, CWave = counting(BufferAudioSource), counting(RawAudioSource), counting(WaveAudioSource)


class _FakeStdin:
    """sys.stdin stand-in whose .buffer counts the bytes handed out."""

    class _Buf:
        def __init__(self, data):
            self._io = io.BytesIO(data)
            self.bytes_out = 0

        def read(self, n=-1):
            d = self._io.read(n)
            self.bytes_out += len(d)
            return d

    def __init__(self, data):
        self.buffer = self._Buf(data)


def check_split_lazy(ctx, case, tmpdir):
    import os
    import wave

    built = AC.build_audio(case)
    if built is None:
        return
    data, verdicts = built
    expected = AC.expected_regions(case, data, verdicts)
    bps = case["width"] * case["channels"]
    block = case["block"]
    kinds = ["buffer", "raw", "wav", "stdin"]
    kind = kinds[case["pcm_seed"] % 4]
    kw = AC.split_kwargs(case)
    counter = None
    old_stdin = sys.stdin
    try:
        if kind == "buffer":
            src = CBuffer(data, case["rate"], case["width"], case["channels"])
            get = lambda: getattr(src, "vf_samples", 0)
            gen = auditok.split(src, **kw)
        elif kind == "raw":
            path = os.path.join(tmpdir, "x.raw")
            with open(path, "wb") as fp:
                fp.write(data)
            src = CRaw(path, case["rate"], case["width"], case["channels"])
            get = lambda: getattr(src, "vf_samples", 0)
            gen = auditok.split(src, **kw)
        elif kind == "wav":
            path = os.path.join(tmpdir, "x.wav")
            with wave.open(path, "wb") as fp:
                fp.setframerate(case["rate"]); fp.setsampwidth(case["width"]); fp.setnchannels(case["channels"])
                fp.writeframes(data)
            src = CWave(path)
            get = lambda: getattr(src, "vf_samples", 0)
            gen = auditok.split(src, **kw)
        else:
            fake = _FakeStdin(data)
            sys.stdin = fake
            get = lambda: fake.buffer.bytes_out // bps
            gen = auditok.split("-", **kw, **AC.audio_kwargs(case))
        got = []
        for r in gen:
            out = get()
            s = round(r.start * case["rate"])
            ns = len(bytes(r)) // bps
            last_window = (s + ns - 1) // block
            bound = (last_window + case["max_sil"] + 2) * block
            ctx.count("regions_timed")
            ctx.count("regions_timed_" + kind)
            got.append((s, ns))
            if out > bound:
                ctx.violation("split-read-ahead-beyond-latency-bound",
                              {"case": AC.case_json(case), "source": kind, "region": [s, ns], "samples_handed_out": out,
                               "bound": bound, "total_samples": len(data) // bps})
                return
            if out < s + ns:
                ctx.violation("region-yielded-before-its-samples-were-read",
                              {"case": AC.case_json(case), "source": kind, "region": [s, ns], "samples_handed_out": out})
                return
        ctx.case(("split", data, repr(sorted(AC.case_json(case).items()))), bool(got))
        if got != expected:
            ctx.violation("lazy-split-regions-differ-from-model", {"case": AC.case_json(case), "source": kind, "observed": got[:20], "expected": expected[:20]})
    except Exception as exc:
        ctx.violation("exception:" + type(exc).__name__, {"case": AC.case_json(case), "source": kind, "exception": repr(exc)[:300]})
    finally:
        sys.stdin = old_stdin


def check_split_lazy_overlap(ctx, case, rng):
    """split() given an AudioReader with hop_dur < block_dur over a counting buffer source."""
    from auditok import AudioReader

    built = AC.build_audio(case)
    if built is None:
        return
    data, _ = built
    bps = case["width"] * case["channels"]
    block = case["block"]
    if block < 2:
        return
    hop = rng.randint(1, block - 1)
    src = CBuffer(data, case["rate"], case["width"], case["channels"])
    reader = AudioReader(src, block_dur=block / case["rate"], hop_dur=hop / case["rate"])
    if reader.block_size != block or reader.hop_size != hop:
        return
    kw = {k: v for k, v in AC.split_kwargs(case).items() if k not in ("analysis_window",)}
    # durations are counted in the reader's block duration
    w = block / case["rate"]
    kw.update(min_dur=(case["min_len"] - 0.5) * w, max_dur=(case["max_len"] + 0.5) * w, max_silence=((case["max_sil"] + 0.5) * w if case["max_sil"] else 0))
    cj = dict(AC.case_json(case), hop=hop)
    try:
        nreg = 0
        for r in auditok.split(reader, **kw):
            out = getattr(src, "vf_samples", 0)
            first = round(r.start / reader.block_dur)
            nwin = -(-len(bytes(r)) // (block * bps))
            last = first + nwin - 1
            bound = block + (last + case["max_sil"] + 1) * hop
            ctx.count("regions_timed_overlap_reader")
            nreg += 1
            if out > bound:
                ctx.violation("split-read-ahead-beyond-latency-bound", {"case": cj, "source": "overlap-reader", "windows": [first, last],
                                                                       "samples_handed_out": out, "bound": bound, "total_samples": len(data) // bps})
                return
        ctx.case(("split-overlap", data, repr(sorted(cj.items()))), nreg > 0)
    except Exception as exc:
        ctx.violation("exception:" + type(exc).__name__, {"case": cj, "source": "overlap-reader", "exception": repr(exc)[:300]})


def check_split_lazy_by_validator(ctx, case, tmpdir, rng):
    """Any input kind, observed at the validator: when a region is yielded, the number of windows the validator has been
    asked about is at most last_window + max_silence_windows + 2 (file names eager/lazy, bytes, regions, readers ...)."""
    import os
    import wave

    from auditok.util import AudioEnergyValidator

    built = AC.build_audio(case)
    if built is None:
        return
    data, verdicts = built
    expected = AC.expected_regions(case, data, verdicts)
    bps = case["width"] * case["channels"]
    inner = AudioEnergyValidator(case["thr"], case["width"], case["channels"], use_channel=case["uc"])
    calls = [0]

    def counting(frame):
        calls[0] += 1
        return inner.is_valid(frame)

    kw = {k: v for k, v in AC.split_kwargs(case).items() if k not in ("energy_threshold", "use_channel")}
    kw["validator" if case["pcm_seed"] & 1 else "val"] = counting
    kind = ("raw_path", "raw_path_lazy", "wav_path", "wav_path_lazy", "bytes", "region")[rng.randrange(6)]
    try:
        if kind.startswith("raw"):
            path = os.path.join(tmpdir, "v.raw")
            with open(path, "wb") as fp:
                fp.write(data)
            gen = auditok.split(path, large_file=kind.endswith("lazy"), **kw, **AC.audio_kwargs(case))
        elif kind.startswith("wav"):
            path = os.path.join(tmpdir, "v.wav")
            with wave.open(path, "wb") as fp:
                fp.setframerate(case["rate"]); fp.setsampwidth(case["width"]); fp.setnchannels(case["channels"])
                fp.writeframes(data)
            gen = auditok.split(path, large_file=kind.endswith("lazy"), **kw)
        elif kind == "bytes":
            gen = auditok.split(data, **kw, **AC.audio_kwargs(case))
        else:
            gen = auditok.AudioRegion(data, case["rate"], case["width"], case["channels"]).split(**kw)
        n = 0
        for r in gen:
            s_ = round(r.start * case["rate"])
            ns = len(bytes(r)) // bps
            last_window = (s_ + ns - 1) // case["block"]
            bound = last_window + case["max_sil"] + 2
            ctx.count("regions_timed_at_validator")
            ctx.count("regions_timed_at_validator_" + kind)
            n += 1
            if calls[0] > bound:
                ctx.violation("split-consumed-windows-beyond-latency-bound-before-yielding",
                              {"case": AC.case_json(case), "input": kind, "region": [s_, ns], "windows_validated": calls[0], "bound": bound,
                               "total_windows": len(verdicts)})
                return
        ctx.case(("split-validator", kind, data, repr(sorted(AC.case_json(case).items()))), n > 0)
    except Exception as exc:
        ctx.violation("exception:" + type(exc).__name__, {"case": AC.case_json(case), "input": kind, "exception": repr(exc)[:300]})


def check_split_lazy_microphone(ctx, case):
    """input=None (the PyAudio path) through a stand-in device that counts the samples pulled from it."""
    from .. import fakepyaudio

    built = AC.build_audio(case)
    if built is None:
        return
    data, verdicts = built
    bps = case["width"] * case["channels"]
    try:
        with fakepyaudio.installed(data) as dev:
            n = 0
            for r in auditok.split(None, **AC.split_kwargs(case), **AC.audio_kwargs(case)):
                s_ = round(r.start * case["rate"])
                ns = len(bytes(r)) // bps
                last_window = (s_ + ns - 1) // case["block"]
                bound = (last_window + case["max_sil"] + 2) * case["block"]
                ctx.count("regions_timed_microphone")
                n += 1
                if dev["pulled_samples"] > bound:
                    ctx.violation("split-read-ahead-beyond-latency-bound", {"case": AC.case_json(case), "source": "microphone(stand-in)", "region": [s_, ns],
                                                                           "samples_pulled_from_device": dev["pulled_samples"], "bound": bound})
                    return
            ctx.case(("split-mic", data, repr(sorted(AC.case_json(case).items()))), n > 0)
    except Exception as exc:
        ctx.violation("exception:" + type(exc).__name__, {"case": AC.case_json(case), "source": "microphone(stand-in)", "exception": repr(exc)[:300]})


def check_limited_source_not_overread(ctx, case, rng):
    """max_read: the source underneath is never asked for more than the first round(max_read*rate) samples."""
    built = AC.build_audio(case)
    if built is None:
        return
    data, _ = built
    bps = case["width"] * case["channels"]
    total = len(data) // bps
    if total < 2:
        return
    limit_samples = rng.choice((rng.randint(0, total), rng.randint(0, total), (rng.randint(0, total // case["block"]) * case["block"])))
    t = limit_samples / case["rate"]
    limit = round(t * case["rate"])
    src = CBuffer(data, case["rate"], case["width"], case["channels"])
    kw = AC.split_kwargs(case)
    kw["max_read" if case["pcm_seed"] & 2 else "mr"] = t
    try:
        for _ in auditok.split(src, **kw):
            pass
    except Exception as exc:
        ctx.violation("exception:" + type(exc).__name__, {"case": AC.case_json(case), "max_read": t, "exception": repr(exc)[:300]})
        return
    out = getattr(src, "vf_samples", 0)
    ctx.count("limited_sources_checked")
    ctx.case(("limited", data, t, repr(sorted(AC.case_json(case).items()))), out > 0)
    if out > limit:
        ctx.violation("source-read-beyond-max_read", {"case": AC.case_json(case), "max_read": t, "limit_samples": limit, "samples_handed_out": out})


def check_interrupted(ctx, v, params, kind, k, name, mode):
    """read() call k raises once (Ctrl-C while the source blocks, EINTR, ...).  Whatever the tokenizer does with it, a token
    reaches the consumer upon its deciding frame or at end of stream: as long as the source has not said None, everything
    delivered is a token of the whole stream; once it has, the result is that of the whole stream."""
    delivery = f"{mode}|fault={k}:{name}"
    case = T.case_of(v, params, kind, delivery)
    try:
        whole = tok.spans(tok.run(v, params, kind, "list")[1])
        frames, tokens, src = tok.run(v, params, kind, delivery)
    except Exception as exc:
        ctx.violation("exception:" + type(exc).__name__, {"case": case, "exception": repr(exc)[:200]})
        return
    got = tok.spans(tokens)
    ctx.case(repr(case), bool(got))
    ctx.count("interrupted_reads")
    if getattr(src, "fault_propagated", False):
        ctx.count("interrupted_reads_where_the_exception_reached_the_caller")
    if src.eos_returns == 0:
        extra = [t for t in got if t not in whole]
        if extra:
            ctx.violation("token-handed-over-without-deciding-frame-or-end-of-stream", {"case": case, "delivered": got, "whole_stream_tokens": whole, "source_said_None": 0})
    elif got != whole:
        ctx.violation("tokens-differ-after-a-transient-read-error", {"case": case, "delivered": got, "whole_stream_tokens": whole})


def run_shard(ctx):
    import shutil
    import tempfile

    conf = TIERS[ctx.tier]
    rng = ctx.rng("interrupted")
    for i in range(300 if ctx.tier == "quick" else 20000):
        params = G.random_params(rng, 6)
        v = G.structured_random(rng, params, 24)[:24]
        if not v:
            continue
        check_interrupted(ctx, v, params, rng.choice(("char", "tuple", "bytes", "numpy")), rng.randint(1, len(v) + 1),
                          rng.choice(("KeyboardInterrupt", "KeyboardInterrupt", "OSError-EINTR", "InterruptedError", "TimeoutError")), rng.choice(tok.DELIVERY))
        if (i & 63) == 0 and ctx.phase_over(0.2):
            break
    for v, params, kind, delivery, origin in T.iter_cases(ctx, conf, with_reuse=False, with_faults=False):
        check_latency(ctx, v, params, kind, origin)
    # long streams: latency must not grow with length
    rng = ctx.rng("long")
    for _ in range(3 if ctx.tier == "quick" else 40):
        params = G.random_params(rng, 12)
        v = G.structured_random(rng, params, conf["max_frames"])
        v = v + G.structured_random(rng, params, conf["max_frames"])
        check_latency(ctx, v, params, "tuple", "long")
    rng = ctx.rng("prefix")
    for i in range(conf["prefix_streams"]):
        params = G.random_params(rng, 6) if i % 3 else G.param_tuples(4)[rng.randrange(120)]
        v = G.structured_random(rng, params, conf["prefix_len"])[: conf["prefix_len"]]
        check_prefixes(ctx, v, params, rng.choice(tok.KIND_NAMES))
        if ctx.out_of_time():
            break
    rng = ctx.rng("split")
    tmpdir = tempfile.mkdtemp(prefix="vf-c08-")
    try:
        for i in range(conf["split_cases"]):
            case = AC.random_split_case(rng, max_windows=60)
            check_split_lazy(ctx, case, tmpdir)
            check_split_lazy_overlap(ctx, AC.random_split_case(rng, max_windows=40, allow_partial=False), rng)
            check_split_lazy_by_validator(ctx, AC.random_split_case(rng, max_windows=50), tmpdir, rng)
            check_limited_source_not_overread(ctx, AC.random_split_case(rng, max_windows=40), rng)
            check_split_lazy_microphone(ctx, AC.random_split_case(rng, max_windows=40))
            if ctx.out_of_time():
                break
    finally:
        shutil.rmtree(tmpdir, ignore_errors=True)


def replay(ctx, case):
    import shutil
    import tempfile

    if "rate" in case:
        tmpdir = tempfile.mkdtemp(prefix="vf-c08-")
        try:
            check_split_lazy(ctx, AC.case_from_json(case), tmpdir)
        finally:
            shutil.rmtree(tmpdir, ignore_errors=True)
        return
    v, params, kind, delivery = T.parse_case(case)
    if "|fault=" in delivery:
        k, _, name = delivery.split("|fault=")[1].split("|")[0].partition(":")
        check_interrupted(ctx, v, params, kind, int(k), name, delivery.split("|")[0])
    elif "cut" in case:
        check_prefixes(ctx, v, params, kind)
    else:
        check_latency(ctx, v, params, kind, "replay")


def inconclusive(merged, tier):
    c = merged["counters"]
    return [f"monitor never observed {k}" for k in
            ("deliveries_timed", "full_length_tokens_timed", "tokens_delivered_at_end_of_stream", "prefix_runs",
             "prefix_flush_tokens", "prefix_flush_tokens_strictly_shorter", "regions_timed_buffer", "regions_timed_raw",
             "regions_timed_wav", "regions_timed_stdin", "cases_long", "regions_timed_overlap_reader", "cases_one_tokenizer_for_all_modes", "cases_with_a_stale_generator_finalised_mid_run", "cases_generator_requested_before_the_other_modes_ran", "regions_timed_at_validator_raw_path", "regions_timed_at_validator_wav_path_lazy", "limited_sources_checked", "regions_timed_microphone", "interrupted_reads", "interrupted_reads_where_the_exception_reached_the_caller") if c.get(k, 0) == 0]
