"""C15 - the command line reports exactly what the API detects."""

import contextlib
import io
import os
import random
import shutil
import subprocess
import sys
import tempfile
import threading
import time as _time
import types
import wave
from fractions import Fraction

import auditok
from auditok.exceptions import TimeFormatError
from auditok.util import make_duration_formatter

from .. import pipeline as P
from ..gen import audio as A
from ..models import fmt as FM

from ..ctx import scratch_dir  # noqa: E402

ID = "C15"
LEVEL = "exploration"
TIERS = {"quick": {"shards": 16, "budget_s": 120, "runs": 40, "subprocess_runs": 4, "formatter_values": 4000},
         "thorough": {"shards": 16, "budget_s": 900, "runs": 1500, "subprocess_runs": 64, "formatter_values": 150000}}
RULE = ("auditok.cmdline.main(argv) run in-process (its sleep shortened; no other thread alive, as main requires) and as real "
        "`python -m auditok.cmdline` child processes, on generated 8/16-bit mono/stereo/3-channel recordings given as raw file, "
        "wav file or standard input, with random subsets and values of -n -m -s -a -e -d -R -u -M -r -c -w -f -L --printf "
        "--time-format -q -o -O -j.  Oracle: output lines parsed back == one line per region of split() called with kwargs the "
        "harness builds from argv using the DOCUMENTED defaults hard-coded (-a 0.01 -n 0.2 -m 5 -s 0.3 -e 50 -r 16000 -c 1 -w 2, "
        "printf '{id} {start} {end}', time format %S); ids 1..k; times checked through FMT; -q => empty stdout; -O file == the "
        "audio read, -o files named from the template holding each detection, -j file == events joined by silence; -j without -O "
        "=> status 1; status 0 otherwise.  Formatter: %S / %I / %h%m%s%i checked by FMT on generated durations incl. 59.9996, "
        "3599.9995, k*0.01, values up to 1e6 s; unknown directive => TimeFormatError.  Rates 1000..22050 Hz; when -a times the rate "
        "is not a whole number of samples (22050 Hz x 10 ms, 1000 Hz x 33.3 ms) the oracle is split() on AudioReader(block_dur=-a), "
        "the reader the program builds (durations counted in its effective block, C06).  Non-trivial = >=1 detection printed or "
        "file written; distinct = distinct (recording, argv).")
ASSUMPTIONS = [
    "-a values are chosen so that a*rate is a whole number of samples (otherwise the tool legitimately counts durations in the reader's shorter block, see C09)",
    "{timestamp} is wall-clock: templates using it are generated but only its shape is matched, not its value; plotting, echo, microphone and compressed formats need packages that are not installed",
    "%I/%i truncate in the implementation (8.03 s -> 8029): accepted, the statement only requires a whole-millisecond value the fields recompose to",
    "held means: held on the executions listed in coverage",
]
DEFAULTS = dict(a=0.01, n=0.2, m=5.0, s=0.3, e=50.0, r=16000, c=1, w=2)


# ---- formatter -------------------------------------------------------------------------
def formatter_checks(ctx, conf):
    rng = ctx.rng("fmt")
    fS, fI, fH = make_duration_formatter("%S"), make_duration_formatter("%I"), make_duration_formatter(FM.HMSI_FMT)
    fixed = [0, 0.0, 0.0004, 0.0005, 0.001, 0.9994, 0.9995, 0.9996, 59.9994, 59.9995, 59.9996, 59.999, 60, 60.0004, 3599.9995,
             3599.9996, 3599.999, 3600, 3723.25, 86399.9996, 359999.9996, 1e6, 123.589, 8.03, 1.005, 2.675, 0.285, 0.57]
    n = conf["formatter_values"]
    for j in range(n + len(fixed)):
        if j < len(fixed):
            if ctx.shard != 0:
                continue
            x = fixed[j]
        else:
            r = rng.random()
            if r < 0.4:
                x = rng.randint(0, 200000) * 0.01
            elif r < 0.6:
                x = rng.randint(0, 3600 * 30) + rng.choice((0.9994, 0.9995, 0.9996, 0.999, 0.0005, 0.5))
            elif r < 0.8:
                x = rng.uniform(0, 4000)
            else:
                x = rng.uniform(0, 1e6)
        ctx.evaluations += 1
        ctx.count("formatter_values")
        try:
            s, i, h = fS(x), fI(x), fH(x)
        except Exception as exc:
            ctx.violation("formatter-raises:" + type(exc).__name__, {"case": {"fmt_value": x}})
            continue
        for prob in (FM.check_S(s, x), FM.check_I(i, x), FM.check_hmsi(h, x, i)):
            if prob:
                ctx.violation("formatter:" + prob, {"case": {"fmt_value": x}, "S": s, "I": i, "hmsi": h})
                break
    if ctx.shard == 0:
        for bad in ("%S %x", "%h:%m:%s.%q", "%d", "%H", "%h %"):
            ctx.count("formatter_bad_directives")
            try:
                make_duration_formatter(bad)
                ctx.violation("unknown-time-directive-accepted", {"case": {"fmt": bad}})
            except TimeFormatError:
                pass
            except Exception as exc:
                ctx.violation("unknown-time-directive-raises-" + type(exc).__name__, {"case": {"fmt": bad}})


# ---- recordings -------------------------------------------------------------------------
def make_recording(rng):
    width = rng.choice((1, 2, 2))
    channels = rng.choice((1, 1, 2, 3))
    rate = rng.choice((8000, 16000, 16000, 1000, 22050, 11025))
    a = rng.choice((None, None, 0.01, 0.02, 0.05, 0.005, 0.0125, 0.0333))
    win = DEFAULTS["a"] if a is None else a
    # window * rate need not be whole (22050 Hz x 10 ms = 220.5, 1000 Hz x 12.5 ms): the window then lasts floor(...) samples and
    # the printed times count in that effective duration, exactly as split() does
    block = int(win * rate)
    if abs(win * rate - round(win * rate)) < 1e-6:
        block = int(round(win * rate))
    thr = rng.choice((None, 45.0, 55.0, -15.0)) if width == 2 else rng.choice((25.0, 30.0, -15.0))  # a negative threshold is as good as any
    eff_thr = DEFAULTS["e"] if thr is None else thr
    pattern = []
    total = rng.choice((30, 80, 200))
    long_burst = rng.random() < 0.15
    while len(pattern) < total:
        pattern += [1] * rng.choice((1, 2, 5, 15, 19, 20, 21, 25, 60)) + [0] * rng.choice((1, 3, 10, 29, 30, 31, 40))
        if long_burst:
            # longer than the documented default -m 5 (500 default windows)
            pattern += [1] * rng.choice((499, 500, 501, 510)) + [0] * 35
            long_burst = False
    uc = rng.choice((None, None, "mix", "avg", 0, channels - 1, -1)) if channels > 1 else rng.choice((None, None, 0))
    data, _ = A.synth(random.Random(rng.getrandbits(32)), pattern, width, channels, block, eff_thr, uc, margin=1.0)
    if rng.random() < 0.12 and len(data) > 200:
        # headerless audio whose first bytes happen to be a complete wav header: still the audio the options describe
        data = A.wav_image(random.Random(rng.getrandbits(32)), len(data))[:44] + data[44:]
    return dict(rate=rate, width=width, channels=channels, a=a, e=thr, uc=uc, data=data)


def build_argv(rng, rec, tmp, idx, allow_files=True, in_process=True):
    """-> (argv, expected split kwargs, meta)"""
    rate, width, channels = rec["rate"], rec["width"], rec["channels"]
    kind = rng.choice(("raw", "wav", "stdin", "raw_noext", "wav_noext"))
    argv, meta = [], {"kind": kind}
    if kind in ("raw", "raw_noext"):
        path = os.path.join(tmp, f"in{idx}" + (".raw" if kind == "raw" else ""))
        with open(path, "wb") as fp:
            fp.write(rec["data"])
        argv.append(path)
        if kind == "raw_noext":
            argv += [rng.choice(("-f", "--input-format")), "raw"]
    elif kind in ("wav", "wav_noext"):
        path = os.path.join(tmp, f"in{idx}" + (".wav" if kind == "wav" else ""))
        with wave.open(path, "wb") as fp:
            fp.setframerate(rate)
            fp.setsampwidth(width)
            fp.setnchannels(channels)
            fp.writeframes(rec["data"])
        argv.append(path)
        if kind == "wav_noext":
            argv += ["-f", "wav"]
    else:
        argv.append("-")
    kw = dict(min_dur=DEFAULTS["n"], max_dur=DEFAULTS["m"], max_silence=DEFAULTS["s"], analysis_window=DEFAULTS["a"],
              energy_threshold=DEFAULTS["e"], drop_trailing_silence=False, strict_min_dur=False, use_channel=None, max_read=None)
    # audio parameters: needed (and effective) for headerless input; wav headers win over them
    if kind in ("raw", "raw_noext", "stdin") or rng.random() < 0.3:
        r_, c_, w_ = rate, channels, width
        if kind.startswith("wav") and rng.random() < 0.5:
            r_, c_, w_ = rng.choice(((44100, 1, 2), (12345, 7, 3), (8000, 2, 3), (1, 1, 4)))  # deliberately different from the header (even impossible for raw audio): must be ignored
        if r_ != DEFAULTS["r"] or rng.random() < 0.5:
            argv += [rng.choice(("-r", "--rate")), str(r_)]
        if c_ != DEFAULTS["c"] or rng.random() < 0.5:
            argv += [rng.choice(("-c", "--channels")), str(c_)]
        if w_ != DEFAULTS["w"] or rng.random() < 0.5:
            argv += [rng.choice(("-w", "--width")), str(w_)]
    if rec["a"] is not None:
        argv += [rng.choice(("-a", "--analysis-window")), repr(rec["a"])]
        kw["analysis_window"] = rec["a"]
    if rec["e"] is not None:
        argv += [rng.choice(("-e", "--energy-threshold")), repr(rec["e"])]
        kw["energy_threshold"] = rec["e"]
    if rec["uc"] is not None:
        argv += [rng.choice(("-u", "--use-channel")), str(rec["uc"])]
        kw["use_channel"] = rec["uc"]
    win = kw["analysis_window"]
    # a window that is not a whole number of samples lasts floor(win*rate) samples: durations are generated (and, by the program as
    # by split() on a reader, counted) in that effective window, with one window of slack so that the tuple stays a valid one
    frac = abs(win * rate - round(win * rate)) > 1e-6
    if frac:
        win = int(win * rate) / rate
    if rng.random() < 0.6:
        n = rng.choice((1, 2, 5, 15, 15, 120)) * win
        argv += [rng.choice(("-n", "--min-duration")), repr(n)]
        kw["min_dur"] = n
    if rng.random() < 0.6:
        m = max(kw["min_dur"] + (win if frac else 0), rng.choice((5, 15, 25, 100, 300)) * win)
        argv += [rng.choice(("-m", "--max-duration")), repr(m)]
        kw["max_dur"] = m
    if rng.random() < 0.08 and not frac:
        # min and max of the SAME number of windows, written the way arithmetic and people write them: k*w (0.07000000000000001)
        # against the decimal literal (0.07) - in seconds min exceeds max by one ulp, in windows they are equal
        k = rng.choice((3, 7, 11, 13))
        n, m = k * win, float(repr(round(k * win, 6)))
        if n > m:
            argv += ["-n", repr(n), "-m", repr(m)]
            kw["min_dur"], kw["max_dur"] = n, m
            meta["min_dur_one_ulp_above_max_dur"] = True
    if kw["min_dur"] > kw["max_dur"] and not meta.get("min_dur_one_ulp_above_max_dur"):  # keep the tuple valid: an invalid one is a user error, not the tool's
        m = kw["min_dur"] + rng.choice((1, 5) if frac else (0, 5)) * win
        argv += ["-m", repr(m)]
        kw["max_dur"] = m
    if rng.random() < 0.6 or kw["max_silence"] >= kw["max_dur"] - (win if frac else 0):
        s = rng.choice((0, 1, 3, 29, 30)) * win
        if s >= kw["max_dur"] - win:
            s = 0
        argv += [rng.choice(("-s", "--max-silence")), repr(s)]
        kw["max_silence"] = s
    if rng.random() < 0.4:
        argv.append(rng.choice(("-d", "--drop-trailing-silence")))
        kw["drop_trailing_silence"] = True
    if rng.random() < 0.4:
        argv.append(rng.choice(("-R", "--strict-min-duration")))
        kw["strict_min_dur"] = True
    total_s = len(rec["data"]) / (rate * width * channels)
    if rng.random() < 0.3:
        M = round(rng.uniform(0, 1.2 * total_s), 3)
        argv += [rng.choice(("-M", "--max-read")), repr(M)]
        kw["max_read"] = M
    if kind in ("raw", "wav") and rng.random() < 0.4:
        argv.append(rng.choice(("-L", "--large-file")))
    tf = rng.choice(("%S", None, None, "%I", "%h:%m:%s.%i", FM.HMSI_FMT))
    if tf is not None:
        argv += ["--time-format", tf]
    meta["time_format"] = tf or "%S"
    pf = rng.choice((None, None, "{id}#{start}#{end}#{duration}", "[{id}]: {start} -> {end}", "{start} {end}", "{id}\\t{duration}",
                     '{{"id": {id}, "start": "{start}", "end": "{end}"}}', "{id} {start} {end} @{timestamp:<30}|", "{timestamp!s} # {id} {duration}",
                     "d\u00e9but {id} \u2192 {start} \u00e0 {end}", "\u4e8b\u4ef6{id} \u2014 {duration}",
                     # an escape sequence AND non-ASCII text in one template; a template that begins with "@"
                     "{id}\\t{start} \u2192 {end}", "n\u00b0{id}\\t{duration} s", "@{id} {start} {end}", "@det {id}: {duration}",
                     # width / alignment specifications on the fields
                     "{id:>4} {start:>14};{end:<14};{duration:^13};", "{id:<3};{start:>16} {end}"))
    if pf is not None:
        argv += ["--printf", pf]
    meta["printf"] = pf or "{id} {start} {end}"
    meta["quiet"] = rng.random() < 0.15
    if meta["quiet"]:
        argv.append(rng.choice(("-q", "--quiet")))
    meta["O"] = meta["o"] = meta["j"] = None
    meta["O_unencodable"] = None
    if allow_files:
        r = rng.random()
        if r < 0.05:
            # a compressed format nobody can encode here (no ffmpeg/avconv/sox): the tool warns on stderr, keeps the wav it
            # wrote, and still prints exactly the detections on stdout
            meta["O_unencodable"] = os.path.join(tmp, f"stream{idx}." + rng.choice(("ogg", "mp3", "flac")))
            argv += [rng.choice(("-O", "--save-stream")), meta["O_unencodable"]]
        elif r < 0.3:
            meta["O"] = os.path.join(tmp, f"stream{idx}.wav")
            argv += [rng.choice(("-O", "--save-stream")), meta["O"]]
            if rng.random() < 0.4:
                meta["j"] = rng.choice((0, 0.05, 0.1))
                argv += [rng.choice(("-j", "--join-detections")), repr(meta["j"])]
        elif r < 0.38:
            meta["j"] = rng.choice((0.1, 0.0, 0, 1.5))
            argv += [rng.choice(("-j", "--join-detections")), repr(meta["j"])]  # without -O: status 1, whatever the value
        if rng.random() < 0.3:
            d = os.path.join(tmp, f"dets{idx}")
            os.makedirs(d, exist_ok=True)
            meta["o"] = os.path.join(d, rng.choice(("det_{id}.wav", "ev_{id}_{start:.3f}_{end:.3f}.wav", "d{id}_{duration:.2f}.raw", "x{id}_{duration}.wav", "y_{start}_{end}_{id}.raw")))
            argv += [rng.choice(("-o", "--save-detections-as")), meta["o"]]
    meta["audio_kw"] = dict(sampling_rate=rate, sample_width=width, channels=channels)
    # numbers the way people and programs spell them: 1e-1, .5, 5., +0.3 - every spelling float() accepts for the same value
    for i_ in range(1, len(argv)):
        if argv[i_ - 1] in ("-a", "--analysis-window", "-n", "--min-duration", "-m", "--max-duration", "-s", "--max-silence", "-M", "--max-read", "-j", "--join-detections"):
            try:
                x = float(argv[i_])
            except ValueError:
                continue
            cands = [argv[i_], format(x, ".17e"), "+" + argv[i_]]
            if argv[i_].startswith("0.") and len(argv[i_]) > 2:
                cands.append(argv[i_][1:])
            if x == int(x) and "e" not in argv[i_] and "." in argv[i_]:
                cands += [argv[i_].split(".")[0] + ".", str(int(x))]
            cands = [c for c in cands if float(c) == x and not c.startswith("-")]
            pick = cands[rng.randrange(len(cands))] if rng.random() < 0.35 else argv[i_]
            if pick != argv[i_]:
                meta["respelled_numbers"] = meta.get("respelled_numbers", 0) + 1
            argv[i_] = pick
    return argv, kw, meta


class _FakeStdin:
    class _B:
        def __init__(self, d):
            self._io = io.BytesIO(d)

        def read(self, n=-1):
            return self._io.read(n)

    def __init__(self, d):
        self.buffer = self._B(d)


class _CliHang(BaseException):
    pass


def run_in_process(argv, stdin_bytes, pipe_rng=None):
    import auditok.cmdline as CL

    from ..stdin import PipeStdin

    alive = [t.name for t in threading.enumerate() if t is not threading.current_thread()]
    if alive:
        return {"inconclusive": f"other threads alive before main(): {alive}"}
    out, err = io.StringIO(), io.StringIO()
    old_time, old_stdin = getattr(CL, "time", None), sys.stdin
    hang = {"n": 0, "blocked_samples": 0, "out_len": -1}

    def fast_sleep(s):
        # the tool's "sleep(1) until every worker has ended" loop, in logical time.  The verdict "never exits" is logical too:
        # thousands of iterations (each a second of the tool's own time) during which every other thread sits in a wait and
        # nothing is printed mean that the workers wait for a message nobody will send.
        _time.sleep(0.002)
        hang["n"] += 1
        if hang["n"] >= 4000 and hang["n"] % 500 == 0:
            frames = sys._current_frames()
            others = [t for t in threading.enumerate() if t is not threading.current_thread()]
            blocked = all(os.path.basename(frames[t.ident].f_code.co_filename) in ("threading.py", "queue.py") for t in others if t.ident in frames)
            same = len(out.getvalue()) == hang["out_len"]
            hang["out_len"] = len(out.getvalue())
            hang["blocked_samples"] = hang["blocked_samples"] + 1 if (blocked and same and others) else 0
            if hang["blocked_samples"] >= 3:
                import traceback

                hang["stacks"] = {t.name: "".join(traceback.format_stack(frames[t.ident])[-4:])[-600:] for t in others if t.ident in frames}
                raise _CliHang()

    if old_time is not None:
        CL.time = types.SimpleNamespace(sleep=fast_sleep, **{k: getattr(_time, k) for k in ("time", "monotonic", "perf_counter") if hasattr(_time, k)})
    old_sleep = getattr(CL, "sleep", None)
    if old_sleep is _time.sleep:
        CL.sleep = fast_sleep  # `from time import sleep`
    ps = None
    if stdin_bytes is not None and pipe_rng is not None:
        # a real pipe + BufferedReader + fileno, fed in small window-unaligned chunks (the feeder ends once all is read)
        ps = PipeStdin(stdin_bytes, pipe_rng, max_chunk=997, feeder="process")
        sys.stdin = ps
    else:
        sys.stdin = _FakeStdin(stdin_bytes if stdin_bytes is not None else b"")
    res = {}
    try:
        with contextlib.redirect_stdout(out), contextlib.redirect_stderr(err):
            try:
                res["rc"] = CL.main(list(argv))
            except SystemExit as exc:
                res["rc"] = ("SystemExit", exc.code)
            except _CliHang:
                res["rc"] = ("never-exits",)
                res["hang"] = {"loop_iterations": hang["n"], "threads": hang.get("stacks")}
            except Exception as exc:
                res["rc"] = ("exception", type(exc).__name__, repr(exc)[:200])
    finally:
        sys.stdin = old_stdin
        if old_time is not None:
            CL.time = old_time
        if old_sleep is _time.sleep:
            CL.sleep = old_sleep
        if ps is not None:
            ps.close()
    if "hang" in res:
        res["stdout"], res["stderr"] = out.getvalue(), err.getvalue()
        res["threads_left"] = [t.name for t in threading.enumerate() if t is not threading.current_thread()]
        return res
    # give stray worker threads a moment; they must all be gone when main returns normally
    t_end = _time.monotonic() + 5
    while _time.monotonic() < t_end and len(threading.enumerate()) > 1:
        _time.sleep(0.005)
    res["threads_left"] = [t.name for t in threading.enumerate() if t is not threading.current_thread()]
    for t in threading.enumerate():
        # recorded above (and judged by the caller); a worker left behind must not keep this process from going on and ending
        if t is not threading.current_thread() and callable(getattr(t, "stop", None)):
            try:
                t.stop()
                t.join(3)
            except Exception:
                pass
    res["stdout"], res["stderr"] = out.getvalue(), err.getvalue()
    return res


def run_subprocess(argv, stdin_bytes, tty=False, keep_open=False):
    env = dict(os.environ, PYTHONPATH=os.environ.get("VERIF_REPO", "/repo"), PYTHONDONTWRITEBYTECODE="1", PYTHONIOENCODING="utf-8")
    master = None
    if tty:
        # standard output is a terminal (what a person at a shell sees): the detections printed are the same
        import pty

        master, slave = pty.openpty()
        p = subprocess.Popen([sys.executable, "-m", "auditok.cmdline"] + list(argv), stdin=subprocess.PIPE, stdout=slave, stderr=subprocess.PIPE, env=env)
        os.close(slave)
        chunks = []

        def drain():
            while True:
                try:
                    b = os.read(master, 65536)
                except OSError:
                    break
                if not b:
                    break
                chunks.append(b)

        th_ = threading.Thread(target=drain, daemon=True)
        th_.start()
    else:
        p = subprocess.Popen([sys.executable, "-m", "auditok.cmdline"] + list(argv), stdin=subprocess.PIPE, stdout=subprocess.PIPE,
                             stderr=subprocess.PIPE, env=env)
    try:
        if stdin_bytes:
            # a slow producer: chunks that do not line up with analysis windows, short pauses in the middle of windows
            rng = random.Random(len(stdin_bytes))
            i, pauses = 0, 0
            while i < len(stdin_bytes):
                k = rng.choice((1, 3, 7, 101, 997, 4099))
                try:
                    p.stdin.write(stdin_bytes[i : i + k])
                    p.stdin.flush()
                except (BrokenPipeError, OSError):
                    break
                i += k
                if pauses < 25 and rng.random() < 0.3:
                    pauses += 1
                    _time.sleep(0.004)
        if keep_open:
            # a live producer (rec, sox, a socket): it has sent what it has and stays connected.  A tool that was told to stop
            # after -M seconds exits all the same.  (Wall clock only as a watchdog: the verdict is the causal test that follows -
            # the child ends as soon as, and only when, the producer hangs up.)
            try:
                p.wait(timeout=90)
            except subprocess.TimeoutExpired:
                try:
                    p.stdin.close()
                except OSError:
                    pass
                p.stdin = None
                try:
                    p.wait(timeout=60)
                except subprocess.TimeoutExpired:
                    p.kill()
                    p.communicate()
                    return {"inconclusive": "child exceeded 150 s"}
                out, err = p.communicate()
                return {"rc": p.returncode, "stdout": out.decode("utf-8", "replace"), "stderr": err.decode("utf-8", "replace"), "threads_left": [],
                        "waited_for_the_producer_to_hang_up": True}
        try:
            p.stdin.close()
        except OSError:
            pass
        p.stdin = None
        out, err = p.communicate(timeout=120)
        if master is not None:
            th_.join(10)
            os.close(master)
            out = b"".join(chunks).replace(b"\r\n", b"\n")
    except subprocess.TimeoutExpired:
        p.kill()
        p.communicate()
        return {"inconclusive": "child exceeded 120 s"}
    return {"rc": p.returncode, "stdout": out.decode("utf-8", "replace"), "stderr": err.decode("utf-8", "replace"), "threads_left": []}


def parse_line(line, template):
    """Invert the --printf template (placeholders {id} {start} {end} {duration}); -> dict or None."""
    import re

    tpl = template.replace("\\t", "\t").replace("\\n", "\n")
    # str.format semantics: {{ and }} are literal braces; {timestamp...} is wall-clock text we cannot predict
    parts = re.split(r"(\{\{|\}\}|\{[a-z]+(?:![rsa])?(?::[^{}]*)?\})", tpl)
    rx = ""
    widths = {}
    for part in parts:
        if part == "{{":
            rx += re.escape("{")
        elif part == "}}":
            rx += re.escape("}")
        elif re.fullmatch(r"\{(id|start|end|duration)\}", part):
            rx += f"(?P<{part[1:-1]}>[0-9:.|]+)"
        elif re.fullmatch(r"\{(id|start|end|duration):[<>^]\d+\}", part):
            # an alignment + width specification: the field is the rendered value padded with spaces to that width
            name, _, spec = part[1:-1].partition(":")
            widths[name] = int(spec[1:])
            rx += f"(?P<{name}>" + {">": " *[0-9:.|]+", "<": "[0-9:.|]+ *", "^": " *[0-9:.|]+ *"}[spec[0]] + ")"
        elif part.startswith("{timestamp"):
            rx += r"(?P<timestamp>[0-9/: .]+?)\s*"
        else:
            rx += re.escape(part)
    mo = re.fullmatch(rx, line)
    if not mo:
        return None
    out = mo.groupdict()
    for name, w in widths.items():
        raw = out[name]
        out[name] = raw.strip()
        if len(raw) != max(w, len(raw.strip())):
            return None  # not padded to the requested width
    return out


def check_time(text, x, tf):
    if tf == "%S":
        return FM.check_S(text, x)
    if tf == "%I":
        return FM.check_I(text, x)
    if tf == FM.HMSI_FMT:
        return FM.check_hmsi(text, x)
    # "%h:%m:%s.%i"
    import re

    mo = re.fullmatch(r"(\d{2,}):(\d{2}):(\d{2})\.(\d{3})", text)
    if not mo:
        return "hmsi-field-widths"
    return FM.check_hmsi("|".join(mo.groups()), x)


def check_cli(ctx, rec, argv, kw, meta, res, mode):
    case = {"argv": [a if not a.startswith("/") else os.path.basename(a) for a in argv], "fmt": [rec["rate"], rec["width"], rec["channels"]],
            "nbytes": len(rec["data"]), "mode": mode}
    if res.get("inconclusive"):
        ctx.count("inconclusive_runs")
        ctx.note("cli driver: " + res["inconclusive"])
        return
    w = {"case": case, "rc": res["rc"], "stderr": res["stderr"][-300:]}
    ctx.count("cli_runs_" + mode)
    if meta.get("O_unencodable"):
        ctx.count("runs_with_unencodable_save_stream_format")
    ctx.count("input_" + meta["kind"])
    if res["threads_left"]:
        ctx.violation("worker-threads-alive-after-main-returned", dict(w, threads=res["threads_left"]))
        return
    if meta["j"] is not None and meta["O"] is None:
        ctx.count("j_without_O_runs")
        ctx.case(repr(case), True)
        if res["rc"] != 1:
            ctx.violation("-j-without--O-does-not-exit-with-status-1", w)
        return
    audio_kw = meta["audio_kw"]
    data = rec["data"]
    aw_ = kw["analysis_window"]
    frac_ = abs(aw_ * rec["rate"] - round(aw_ * rec["rate"])) > 1e-6
    if frac_:
        try:
            auditok.split(auditok.AudioReader(b"", block_dur=aw_, **audio_kw),
                          **{k_: v_ for k_, v_ in kw.items() if k_ not in ("analysis_window", "max_read")})
        except ValueError:
            # the API itself rejects this tuple (a user error): what the program does with it is not stated
            ctx.count("tuples_rejected_by_the_api_not_judged")
            return
    if res["rc"] != 0:
        ctx.case(repr(case), True)
        ctx.violation("exit-status-not-0", w)
        return
    if frac_:
        # -a times the rate is not a whole number of samples.  The program hands split() an AudioReader built with block_dur=-a,
        # and for a reader the statements (C06) count every duration in the reader's own block duration floor(a*rate)/rate, not
        # in the number given: the corresponding API call is split() on such a reader (same ruling as C09, DESIGN 14.16)
        ctx.count("runs_whose_window_is_not_a_whole_number_of_samples")
        kw_r = {k_: v_ for k_, v_ in kw.items() if k_ not in ("analysis_window", "max_read")}
        reader = auditok.AudioReader(data, block_dur=aw_, max_read=kw.get("max_read"), **audio_kw)
        regions = list(auditok.split(reader, **kw_r))
    else:
        regions = list(auditok.split(data, **kw, **audio_kw))
    bps = rec["width"] * rec["channels"]
    lines = [ln for ln in res["stdout"].split("\n") if ln.strip()]
    ctx.case(repr(case), bool(regions))
    ctx.count("detections_expected", len(regions))
    if meta["quiet"]:
        ctx.count("quiet_runs")
        if res["stdout"].strip():
            ctx.violation("-q-prints-output", dict(w, stdout=res["stdout"][:200]))
            return
    else:
        tpl = meta["printf"]
        if "\\t" in tpl:
            lines = [ln for ln in res["stdout"].split("\n") if ln.strip()]
        if len(lines) != len(regions):
            key = "cli-prints-fewer-detections-than-split" if len(lines) < len(regions) else "cli-prints-more-detections-than-split"
            ctx.violation(key, dict(w, printed=len(lines), expected=len(regions), first_lines=lines[:3],
                                    expected_first=[(r.start, r.end) for r in regions[:3]], split_kwargs={k: repr(v) for k, v in kw.items()}))
            return
        for i, (ln, r) in enumerate(zip(lines, regions), start=1):
            f = parse_line(ln, tpl)
            if f is None:
                ctx.violation("output-line-does-not-match-printf-template", dict(w, line=ln, template=tpl))
                return
            if "id" in f and f["id"] is not None and f["id"] != str(i):
                ctx.violation("detection-ids-not-counting-from-1", dict(w, line=ln, expected_id=i))
                return
            for name, x in (("start", r.start), ("end", r.end), ("duration", r.duration)):
                if f.get(name) is not None:
                    prob = check_time(f[name], x, meta["time_format"])
                    ctx.count("times_checked")
                    if prob:
                        ctx.violation(f"printed-{name}-differs-from-split:{prob}", dict(w, line=ln, expected=x, time_format=meta["time_format"], detection=i))
                        return
        ctx.count("lines_checked", len(lines))
    # files
    if meta["O"] is not None:
        try:
            frames, fr, sw, ch = P.wav_read(meta["O"])
        except Exception as exc:
            ctx.violation("-O-file-unreadable", dict(w, exception=repr(exc)[:200]))
            return
        if meta["j"] is None:
            ctx.count("O_files_checked")
            want = data
            if kw["max_read"] is not None:
                want = data[: round(kw["max_read"] * rec["rate"]) * bps]
            if (fr, sw, ch) != (rec["rate"], rec["width"], rec["channels"]) or frames != want:
                ctx.violation("-O-file-differs-from-the-audio-read", dict(w, got_len=len(frames), want_len=len(want), header=[fr, sw, ch]))
                return
        else:
            ctx.count("j_files_checked")
            sil = bytes(round(meta["j"] * rec["rate"]) * bps)
            want = sil.join(bytes(r) for r in regions)
            if frames != want:
                ctx.violation("-j-file-differs-from-joined-detections", dict(w, got_len=len(frames), want_len=len(want)))
                return
    if meta["o"] is not None:
        ctx.count("o_dirs_checked")
        d = os.path.dirname(meta["o"])
        tplname = os.path.basename(meta["o"])
        want = {tplname.format(id=i, start=r.start, end=r.end, duration=r.duration): bytes(r) for i, r in enumerate(regions, start=1)}
        have = sorted(os.listdir(d))
        if have != sorted(want):
            ctx.violation("-o-file-names-differ-from-template", dict(w, files=have[:8], expected=sorted(want)[:8]))
            return
        for name, b in want.items():
            p = os.path.join(d, name)
            if name.endswith(".wav"):
                got = P.wav_read(p)[0]
            else:
                with open(p, "rb") as fp:
                    got = fp.read()
            if got != b:
                ctx.violation("-o-file-audio-differs-from-detection", dict(w, file=name))
                return
    if regions and ctx.want_sample():
        ctx.sample({"argv": case["argv"], "mode": mode, "first_lines": lines[:3], "detections": len(regions)})


def bad_time_format_run(ctx, rng, tmp):
    rec = make_recording(rng)
    path = os.path.join(tmp, "btf.wav")
    with wave.open(path, "wb") as fp:
        fp.setframerate(rec["rate"]); fp.setsampwidth(rec["width"]); fp.setnchannels(rec["channels"])
        fp.writeframes(rec["data"][: 2000 * rec["width"] * rec["channels"]])
    res = run_in_process([path, "--time-format", "%h:%m:%q"], None)
    ctx.count("bad_time_format_runs")
    ctx.evaluations += 1
    if res.get("rc") == 0:
        ctx.violation("unknown-time-directive-accepted-by-cli", {"case": {"argv": ["btf.wav", "--time-format", "%h:%m:%q"]}, "rc": res["rc"]})


def live_producer_run(ctx, rng, tmp):
    """standard input from a producer that stays connected after it has sent more than -M seconds of audio"""
    for _ in range(200):
        rec = make_recording(rng)
        argv, kw, meta = build_argv(rng, rec, tmp, 20000, allow_files=False)
        total_s = len(rec["data"]) / (rec["rate"] * rec["width"] * rec["channels"])
        if meta["kind"] == "stdin" and len(rec["data"]) <= 48000 and total_s > 0.2 and not meta["quiet"]:
            break
    else:
        return
    if kw["max_read"] is None or kw["max_read"] >= total_s:
        for opt in ("-M", "--max-read"):
            if opt in argv:
                del argv[argv.index(opt) : argv.index(opt) + 2]
        kw["max_read"] = round(total_s * rng.choice((0.3, 0.5, 0.8)), 3)
        argv += ["-M", repr(kw["max_read"])]
    res = run_subprocess(argv, rec["data"], keep_open=True)
    ctx.count("cli_children_whose_producer_stays_connected")
    if res.get("waited_for_the_producer_to_hang_up"):
        ctx.case(("cli-live-producer", tuple(argv)), True)
        ctx.violation("command-line-exits-only-when-the-producer-hangs-up", {"case": {"argv": argv, "input": "stdin, producer stays connected", "nbytes": len(rec["data"])},
                                                                               "stdout": res["stdout"][:300]})
        return
    check_cli(ctx, rec, argv, kw, meta, res, "subprocess")


def run_shard(ctx, upto=None):
    conf = TIERS[ctx.tier]
    tmp = scratch_dir(ctx, "vf-c15-")
    try:
        rng = ctx.rng("sub")
        for i in range(conf["subprocess_runs"] if upto is None else 0):
            if not ctx.mine(i):
                rng.random()
                continue
            rec = make_recording(rng)
            argv, kw, meta = build_argv(rng, rec, tmp, 10000 + i)
            on_tty = (i % 2 == 1)
            res = run_subprocess(argv, rec["data"] if meta["kind"] == "stdin" else None, tty=on_tty)
            if on_tty:
                ctx.count("cli_children_with_a_terminal_as_stdout")
            check_cli(ctx, rec, argv, kw, meta, res, "subprocess")
        if upto is None and (ctx.shard == 1 or (ctx.tier == "thorough" and ctx.shard % 4 == 1)):
            live_producer_run(ctx, ctx.rng("live"), tmp)
        rng = ctx.rng("cli")
        if ctx.shard == 0:
            bad_time_format_run(ctx, rng, tmp)
        for i in range(conf["runs"] if upto is None else upto + 1):
            ctx.replay_info = {"shard": ctx.shard, "nshards": ctx.nshards, "seed": ctx.seed, "i": i}
            rec = make_recording(rng)
            argv, kw, meta = build_argv(rng, rec, tmp, i)
            use_pipe = meta["kind"] == "stdin"  # the producer is a process of its own: a tool that stops reading early (-M) leaves IT blocked
            res = run_in_process(argv, rec["data"] if meta["kind"] == "stdin" else None, rng if use_pipe else None)
            if use_pipe:
                ctx.count("stdin_fed_through_a_real_pipe")
            if "hang" in res:
                ctx.case(("cli-hang", i), True)
                ctx.violation("command-line-never-exits", {"case": {"argv": argv, "input": meta["kind"], "nbytes": len(rec["data"])}, "hang": res["hang"], "stdout": res["stdout"][:300]})
                ctx.force_exit = True  # blocked worker threads cannot be removed from this process: report and leave
                return
            check_cli(ctx, rec, argv, kw, meta, res, "in_process")
            for f in os.listdir(tmp):
                p = os.path.join(tmp, f)
                shutil.rmtree(p) if os.path.isdir(p) else os.unlink(p)
            if ctx.out_of_time():
                break
        ctx.replay_info = None
        if upto is None:
            formatter_checks(ctx, conf)
    finally:
        shutil.rmtree(tmp, ignore_errors=True)


def replay(ctx, case):
    if "fmt_value" in case or "fmt" in case and isinstance(case["fmt"], str):
        formatter_checks(ctx, TIERS["quick"])
        return
    import sys

    from ..ctx import replay_by_index

    if not replay_by_index(ctx, sys.modules[__name__], case):
        ctx.note("subprocess witnesses are self-describing (argv + recording parameters); re-running the seeded workload of shard 0")
        run_shard(ctx)


def inconclusive(merged, tier):
    c = merged["counters"]
    need = ["cli_children_whose_producer_stays_connected", "cli_runs_in_process", "cli_runs_subprocess", "lines_checked", "times_checked", "quiet_runs", "j_without_O_runs",
            "O_files_checked", "j_files_checked", "o_dirs_checked", "formatter_values", "formatter_bad_directives",
            "bad_time_format_runs", "input_raw", "input_wav", "input_stdin", "stdin_fed_through_a_real_pipe", "cli_children_with_a_terminal_as_stdout", "runs_with_unencodable_save_stream_format"]
    out = [f"monitor never observed {k}" for k in need if c.get(k, 0) == 0]
    if c.get("inconclusive_runs", 0) > 2:
        out.append(f"{c['inconclusive_runs']} command-line runs were inconclusive")
    return out
