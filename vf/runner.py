"""Fan a property check out over shard processes, merge what the monitors
observed, apply the known-findings file, write evidence, set the exit code.

Exit codes: 0 held on everything observed, 1 violation (VIOLATION line),
2 inconclusive (INCONCLUSIVE line; never folded into 'held')."""

import importlib
import json
import os
import shutil
import subprocess
import sys
import tempfile
import time

from . import evidence, findings
from .ctx import Ctx, stable_hash

HOME = os.environ.get("VERIF_HOME") or os.path.dirname(os.path.dirname(os.path.abspath(__file__)))
REPO = os.environ.get("VERIF_REPO", "/repo")


def load_prop(pid):
    return importlib.import_module("vf.props." + pid.lower())


def assert_repo_tree():
    import auditok

    f = os.path.realpath(auditok.__file__)
    if not f.startswith(os.path.realpath(REPO) + os.sep):
        print(f"INCONCLUSIVE reason=auditok imported from {f}, not from {REPO}")
        sys.exit(2)


def tier_conf(mod, tier):
    conf = dict(getattr(mod, "TIERS")[tier])
    conf.setdefault("shards", 16)
    conf.setdefault("budget_s", 60)
    jobs = int(os.environ.get("VERIF_JOBS", "16"))
    conf["jobs"] = max(1, min(jobs, conf["shards"]))
    return conf


SHARD_ENVS = {5: "python-O", 6: "debug-logging", 4: "cwd-removed", 7: "auditok-variables-set"}


def apply_shard_env(kind):
    os.environ["TAKE"] = "7"  # always defined: file names that contain $TAKE / ${TAKE} are ordinary file names
    if kind == "cwd-removed":
        # the directory the process was started in has been deleted (a cleaned-up job directory): nothing the library does for
        # absolute paths or in-memory audio may depend on os.getcwd()
        import tempfile

        d = tempfile.mkdtemp(prefix="vf-gone-")
        os.chdir(d)
        os.rmdir(d)
    if kind == "auditok-variables-set":
        # whatever AUDITOK_* variable the library may look up IS set in this environment (to a plausible value): what the
        # statements fix - regions, windows, laziness, defaults - does not depend on the process environment
        real = os.environ
        vals = ("8", "3", "0.15", "16", "2.5")

        def answer(key):
            try:
                k = key if isinstance(key, str) else key.decode()
            except Exception:
                return None
            if "AUDITOK" in k.upper():
                return vals[sum(map(ord, k)) % len(vals)]
            return None

        orig_get, orig_getitem, orig_contains, orig_getenv = type(real).get, type(real).__getitem__, type(real).__contains__, os.getenv

        try:
            type(real).get = lambda self, key, default=None: (answer(key) if answer(key) is not None else orig_get(self, key, default))
            type(real).__getitem__ = lambda self, key: (answer(key) if answer(key) is not None else orig_getitem(self, key))
            type(real).__contains__ = lambda self, key: (True if answer(key) is not None else orig_contains(self, key))
            os.getenv = lambda key, default=None: (answer(key) if answer(key) is not None else orig_getenv(key, default))
        except TypeError:
            pass
    if kind == "debug-logging":
        import logging

        logging.basicConfig(level=logging.DEBUG, stream=open(os.devnull, "w"), force=True)
        logging.getLogger("auditok").setLevel(logging.DEBUG)
        logging.getLogger("auditok.core").setLevel(logging.DEBUG)


def run_shard(pid, tier, seed, shard, nshards, budget_s, out):
    """Child-process entry."""
    import faulthandler

    mod = load_prop(pid)
    assert_repo_tree()
    kind = os.environ.get("VF_SHARD_ENV", "")
    apply_shard_env(kind)
    # wall-clock watchdog: firing => the parent sees a dead shard => inconclusive
    faulthandler.dump_traceback_later(budget_s * 3 + 120, exit=True)
    ctx = Ctx(pid, tier, seed, shard, nshards, budget_s)
    ctx.shard_env = kind
    ctx.hash_seed = os.environ.get("PYTHONHASHSEED", "")
    from . import vclock

    if shard % 2 == 0:
        # every other shard: wall-clock readings inside the library jump (see vclock.py); nothing to replace on the pinned tree
        ctx.vclock_bindings = vclock.install(seed * 1000 + shard)
        if ctx.vclock_bindings:
            ctx.count("virtual_clock_bindings_replaced", len(ctx.vclock_bindings))
            ctx.note("virtual clock installed on: " + ", ".join(ctx.vclock_bindings))
    if kind:
        ctx.count("shards_run_under_" + kind + ("" if kind != "python-O" or sys.flags.optimize else "-FLAG-MISSING"))
    try:
        from . import parcases

        if pid in parcases.BY_PROPERTY and (tier == "thorough" or shard < 6):
            # independent objects used from several threads at once (deterministic interleavings at statement /
            # instruction granularity inside every auditok module): results must equal the single-threaded ones
            parcases.run(ctx, pid, 3 if tier == "quick" else 30)
        mod.run_shard(ctx)
    except Exception as exc:
        # The harness could not digest what the code under test produced (e.g. a token whose indices lie outside the
        # stream).  On the unchanged tree this never happens; on a changed tree it is a symptom of the change, so it is
        # reported as a violation with the traceback rather than as a dead shard.
        import traceback

        ctx.violation("harness-cannot-interpret-output:" + type(exc).__name__,
                      {"case": dict(ctx.replay_info or {}), "traceback": "".join(traceback.format_exception(exc))[-1800:]})
    faulthandler.cancel_dump_traceback_later()
    if vclock.installed():
        ctx.count("virtual_clock_readings", vclock.CLOCK.readings)
        ctx.count("virtual_clock_big_jumps", vclock.CLOCK.big_jumps)
    ctx.dump(out)
    if getattr(ctx, "force_exit", False):
        sys.stdout.flush()
        os._exit(0)


def _merge(results, hash_files):
    import numpy as np

    m = {
        "evaluations": 0,
        "counters": {},
        "sets": {},
        "samples": [],
        "violations": {},
        "notes": [],
        "truncated_by_time": False,
        "shard_wall_s": [],
    }
    for r in results:
        m["evaluations"] += r["evaluations"]
        for k, v in r["counters"].items():
            if k.startswith("max:"):
                m["counters"][k] = max(m["counters"].get(k, v), v)
            else:
                m["counters"][k] = m["counters"].get(k, 0) + v
        for k, v in r["sets"].items():
            s = m["sets"].setdefault(k, set())
            for x in v:
                s.add(json.dumps(x, sort_keys=True) if isinstance(x, (list, dict)) else x)
        m["samples"].extend(r["samples"])
        for k, v in r["violations"].items():
            d = m["violations"].setdefault(k, {"count": 0, "witnesses": []})
            d["count"] += v["count"]
            d["witnesses"].extend(v["witnesses"])
        for n in r["notes"]:
            if n not in m["notes"]:
                m["notes"].append(n)
        m["truncated_by_time"] |= r["truncated_by_time"]
        m["shard_wall_s"].append(round(r["wall_s"], 2))
    for d in m["violations"].values():
        # smallest witness first (shortlex enumeration makes it minimal per shard)
        d["witnesses"].sort(key=lambda w: len(json.dumps(w.get("case", w), default=repr)))
        d["witnesses"] = d["witnesses"][:5]
    arrays = [np.load(f) for f in hash_files]
    if arrays:
        m["distinct_nontrivial"] = int(np.unique(np.concatenate(arrays)).size)
    else:
        m["distinct_nontrivial"] = 0
    return m


def check(pid, tier, seed=None, keep=False):
    t0 = time.monotonic()
    pid = pid.upper()
    if seed is None:
        seed = int(os.environ.get("VERIF_SEED", "0") or 0)
    mod = load_prop(pid)
    assert_repo_tree()
    conf = tier_conf(mod, tier)
    if os.environ.get("VERIF_BUDGET_S"):
        # a shorter (or longer) time budget per shard for the time-budgeted loops of this tier: same code paths, less depth
        conf = dict(conf, budget_s=int(os.environ["VERIF_BUDGET_S"]))
    nshards = conf["shards"]
    os.makedirs(os.path.join(HOME, ".work"), exist_ok=True)
    work = tempfile.mkdtemp(prefix=f"{pid}-{tier}-", dir=os.path.join(HOME, ".work"))
    procs = {}
    pending = list(range(nshards))
    results, hash_files, dead = [], [], []
    timeout = conf["budget_s"] * 3 + 180
    try:
        running = {}
        while pending or running:
            while pending and len(running) < conf["jobs"]:
                i = pending.pop(0)
                out = os.path.join(work, f"shard{i}.json")
                log = open(os.path.join(work, f"shard{i}.log"), "wb")
                # process environments a library must not be sensitive to: one shard in eight runs under `python -O`
                # (no asserts, __debug__ False), one with DEBUG logging switched on for every logger
                kind = SHARD_ENVS.get(i % 8, "") if nshards >= 8 else ""
                p = subprocess.Popen(
                    [sys.executable] + (["-O"] if kind == "python-O" else []) +
                    ["-m", "vf", "shard", pid, "--tier", tier, "--seed", str(seed),
                     "--shard", str(i), "--nshards", str(nshards), "--budget", str(conf["budget_s"]),
                     "--out", out],
                    stdout=log, stderr=subprocess.STDOUT, cwd=HOME,
                    # each shard has its own string-hash seed: iteration order of sets / dicts keyed by str differs between them
                    env=dict(os.environ, VF_SHARD_ENV=kind, PYTHONHASHSEED=str(i)),
                )
                running[i] = (p, out, log, time.monotonic())
            time.sleep(0.02)
            for i in list(running):
                p, out, log, ts = running[i]
                rc = p.poll()
                if rc is None:
                    if time.monotonic() - ts > timeout:
                        p.kill()
                        p.wait()
                        rc = -9
                    else:
                        continue
                log.close()
                del running[i]
                if rc == 0 and os.path.exists(out):
                    with open(out) as fp:
                        results.append(json.load(fp))
                    hash_files.append(out + ".hashes.npy")
                else:
                    with open(os.path.join(work, f"shard{i}.log"), "rb") as fp:
                        tail = fp.read()[-3000:].decode("utf-8", "replace")
                    dead.append({"shard": i, "rc": rc, "log_tail": tail})
        merged = _merge(results, hash_files)
    finally:
        if not keep:
            shutil.rmtree(work, ignore_errors=True)

    wall = time.monotonic() - t0
    # ---- verdict -----------------------------------------------------------
    reasons = []
    for d in dead:
        reasons.append(f"shard {d['shard']} died rc={d['rc']}")
    if hasattr(mod, "inconclusive"):
        reasons.extend(mod.inconclusive(merged, tier) or [])
    from . import parcases

    if pid in parcases.BY_PROPERTY and merged["counters"].get("parallel_rounds", 0) == 0:
        reasons.append("the several-threads workload never ran")
    if nshards >= 8:
        for kind in SHARD_ENVS.values():
            if merged["counters"].get("shards_run_under_" + kind, 0) == 0:
                reasons.append(f"no shard ran under {kind}")
    if merged["evaluations"] == 0:
        reasons.append("no case executed")
    if merged["distinct_nontrivial"] < 2:
        reasons.append("fewer than 2 distinct non-trivial cases observed")

    known = findings.load(os.path.join(HOME, "KNOWN_FINDINGS.txt"))
    new_viol, known_hits = [], []
    for key, v in sorted(merged["violations"].items()):
        entry = known.get((pid, key))
        if entry is not None:
            known_hits.append((key, entry, v))
        else:
            new_viol.append((key, v))

    os.makedirs(os.path.join(HOME, "replays"), exist_ok=True)
    lines = []
    for key, entry, v in known_hits:
        lines.append(f"KNOWN-FINDING: property={pid} key={key} {entry} (seen {v['count']}x)")
    for key, v in new_viol[:10]:
        w = v["witnesses"][0]
        path = os.path.join(HOME, "replays", f"{pid}-{key[:60].replace('/', '_')}-{stable_hash(w) & 0xffffffff:08x}.json")
        with open(path, "w") as fp:
            json.dump({"property": pid, "key": key, "count": v["count"], "tier": tier, "seed": seed,
                       "witness": w, "more_witnesses": v["witnesses"][1:]}, fp, indent=1, default=repr)
        lines.append(f"VIOLATION property={pid} replay={path}")
        lines.append(f"  mechanism={key} count={v['count']} witness={json.dumps(w, default=repr)[:600]}")
    if len(new_viol) > 10:
        lines.append(f"  ... and {len(new_viol) - 10} more distinct mechanisms")

    ev = evidence.build(mod, pid, tier, seed, merged, wall, reasons, dead,
                        violations=sum(v["count"] for _, v in new_viol),
                        known=[(k, v["count"]) for k, _, v in known_hits])
    evidence.write(os.path.join(os.environ.get("VERIF_EVIDENCE_DIR") or os.path.join(HOME, "evidence"), f"{pid}.json"), ev)

    for ln in lines:
        print(ln)
    c = merged["counters"]
    brief = ", ".join(f"{k}={c[k]}" for k in sorted(c)[:12])
    print(f"[{pid} {tier} seed={seed}] evaluations={merged['evaluations']} "
          f"distinct_nontrivial={merged['distinct_nontrivial']} wall={wall:.1f}s "
          f"shard_wall_max={max(merged['shard_wall_s'] or [0])}s"
          f"{' TRUNCATED_BY_TIME' if merged['truncated_by_time'] else ''} :: {brief}")
    if new_viol:
        return 1
    if reasons:
        for r in reasons:
            print(f"INCONCLUSIVE property={pid} reason={r}")
        for d in dead[:1]:
            print(d["log_tail"][-1500:])
        return 2
    print(f"HELD property={pid} on everything observed")
    return 0


def replay(path):
    with open(path) as fp:
        rec = json.load(fp)
    pid = rec["property"]
    kind = rec["witness"].get("process_environment", "") if isinstance(rec.get("witness"), dict) else ""
    hs = rec["witness"].get("hash_seed") if isinstance(rec.get("witness"), dict) else None
    if hs not in (None, "", os.environ.get("PYTHONHASHSEED")) and not os.environ.get("VF_REPLAY_REEXEC"):
        # the witness was observed under another string-hash seed: replay it there
        return subprocess.run([sys.executable] + (["-O"] if kind == "python-O" else []) + ["-m", "vf", "replay", path], cwd=HOME,
                              env=dict(os.environ, PYTHONHASHSEED=str(hs), VF_REPLAY_REEXEC="1")).returncode
    if kind == "python-O" and not sys.flags.optimize:
        # the witness was observed under `python -O`: replay it there
        return subprocess.run([sys.executable, "-O", "-m", "vf", "replay", path], cwd=HOME).returncode
    apply_shard_env(kind)
    mod = load_prop(pid)
    assert_repo_tree()
    ctx = Ctx(pid, rec.get("tier", "quick"), rec.get("seed", 0), 0, 1, 600, replay=True)
    case = rec["witness"].get("case")
    if isinstance(case, dict) and case.get("parallel"):
        from . import parcases

        parcases.replay(ctx, case)
        case = None
        if not ctx.violations:
            print(f"NOT REPRODUCED property={pid} (the recorded interleaved case now passes)")
            return 0
    elif case is None or not hasattr(mod, "replay"):
        print("witness holds no replayable case; full record follows")
        print(json.dumps(rec, indent=1)[:4000])
        return 2
    if case is not None:
        mod.replay(ctx, case)
    if ctx.violations:
        for k, v in ctx.violations.items():
            print(f"REPRODUCED property={pid} mechanism={k}")
            print(json.dumps(v["witnesses"][0], indent=1, default=repr)[:4000])
        return 1
    print(f"NOT REPRODUCED property={pid} (the recorded case now passes)")
    return 0
