"""Run the repository's own test suite with the passive monitors riding along
(pytest -p vf.pytest_plugin) and fold what they observed into a check."""

import json
import os
import subprocess
import sys
import tempfile


FAMILIES = {
    # family -> (monitors to install, violation-key test, counters to report)
    "tokenizer": ("tokenizer", lambda k: not k.startswith("validator") and not k.startswith(PREFIXES),
                  ("tokenize_calls", "generator_calls", "tokens", "frames", "checked_c04", "unaligned", "abandoned_generators")),
    "validator": ("validator", lambda k: k.startswith("validator"), ("validator_verdicts", "validator_verdicts_checked")),
    "split": ("split", lambda k: k.startswith("split:"), ("split_calls_checked", "split_regions_checked")),
    "reader": ("reader", lambda k: k.startswith("reader:"), ("reader_blocks_checked", "reader_streams_ended")),
    "source": ("source", lambda k: k.startswith("source:"), ("source_reads_checked", "source_reads_none")),
    "region-slice": ("region", lambda k: k.startswith("region-slice:"), ("region_slices_checked",)),
    "region-algebra": ("region", lambda k: k.startswith("region-algebra:"),
                       ("region_concats_checked", "region_repeats_checked", "region_divisions_checked", "region_equalities_checked")),
}
PREFIXES = ("split:", "reader:", "source:", "region-slice:", "region-algebra:")


def run(ctx, family, select=None):
    """the repository's own tests with the passive monitors of one family riding along; their findings become violations
    `repo-tests:<key>` of the calling check, their counters `repo_tests_<counter>`"""
    monitors, mine, counters = FAMILIES[family]
    repo = os.environ.get("VERIF_REPO", "/repo")
    fd, out = tempfile.mkstemp(prefix="vf-plugin-", suffix=".json")
    os.close(fd)
    env = dict(os.environ, VF_PLUGIN_OUT=out, VF_PLUGIN_MONITORS=monitors, PYTHONDONTWRITEBYTECODE="1")
    cmd = [sys.executable, "-m", "pytest", "-q", "-p", "no:cacheprovider", "-p", "vf.pytest_plugin"]
    if select:
        cmd += select
    try:
        subprocess.run(cmd, cwd=repo, env=env, capture_output=True, text=True, timeout=900)
        with open(out) as fp:
            state = json.load(fp)
    except Exception as exc:
        ctx.note("repository tests under monitors could not run: " + repr(exc)[:200])
        return None
    finally:
        try:
            os.unlink(out)
        except OSError:
            pass
    for k in counters:
        ctx.count("repo_tests_" + k, state.get(k, 0))
    if state.get("monitor_errors"):
        ctx.count("repo_tests_monitor_errors", len(state["monitor_errors"]))
        ctx.note("monitor error while riding the repository tests: " + state["monitor_errors"][0])
    for key, detail in state.get("violations", []):
        if mine(key):
            ctx.violation("repo-tests:" + key, {"case": {"repo_test": detail.get("where")}, "detail": detail})
    return state
