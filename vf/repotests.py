"""Run the repository's own test suite with the passive monitors riding along
(pytest -p vf.pytest_plugin) and fold what they observed into a check."""

import json
import os
import subprocess
import sys
import tempfile


def run(ctx, keys_prefix, select=None):
    repo = os.environ.get("VERIF_REPO", "/repo")
    fd, out = tempfile.mkstemp(prefix="vf-plugin-", suffix=".json")
    os.close(fd)
    env = dict(os.environ, VF_PLUGIN_OUT=out, PYTHONDONTWRITEBYTECODE="1")
    cmd = [sys.executable, "-m", "pytest", "-q", "-p", "no:cacheprovider", "-p", "vf.pytest_plugin", "-x" if False else "-q"]
    if select:
        cmd += select
    try:
        subprocess.run(cmd, cwd=repo, env=env, capture_output=True, text=True, timeout=900)
        with open(out) as fp:
            state = json.load(fp)
    except Exception as exc:
        ctx.note("repository tests under monitors could not run: " + repr(exc)[:200])
        return None
    finally:
        try:
            os.unlink(out)
        except OSError:
            pass
    for k in ("tokenize_calls", "generator_calls", "tokens", "frames", "checked_c04", "unaligned", "abandoned_generators",
              "validator_verdicts", "validator_verdicts_checked"):
        ctx.count("repo_tests_" + k, state.get(k, 0))
    if state.get("monitor_errors"):
        ctx.count("repo_tests_monitor_errors", len(state["monitor_errors"]))
        ctx.note("monitor error while riding the repository tests: " + state["monitor_errors"][0])
    for key, detail in state.get("violations", []):
        is_validator = key.startswith("validator")
        if (keys_prefix == "validator") == is_validator:
            ctx.violation("repo-tests:" + key, {"case": {"repo_test": detail.get("where")}, "detail": detail})
    return state
