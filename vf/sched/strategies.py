"""Seeded, replayable scheduling strategies.  choose(sched, enabled, me) -> index
into `enabled` (a list of (TState, 'run'|'timeout') in registration order)."""

import random


class Base:
    name = "base"

    def __init__(self, seed, timeout_budget=10):
        self.rng = random.Random(seed)
        self.timeout_budget = timeout_budget

    def _split(self, enabled):
        runs = [i for i, (_, a) in enumerate(enabled) if a == "run"]
        touts = [i for i, (_, a) in enumerate(enabled) if a == "timeout"]
        return runs, touts

    def _spend(self, enabled, idx):
        if enabled[idx][1] == "timeout" and self.timeout_budget > 0:
            self.timeout_budget -= 1
        return idx


class Uniform(Base):
    name = "uniform"

    def choose(self, sched, enabled, me):
        runs, touts = self._split(enabled)
        if not runs:
            return self._spend(enabled, self.rng.choice(touts))
        pool = runs + (touts if self.timeout_budget > 0 else [])
        return self._spend(enabled, self.rng.choice(pool))


class Sticky(Base):
    """Keeps running the current thread with probability p (long bursts: one
    thread far ahead of the others), otherwise uniform."""

    name = "sticky"

    def __init__(self, seed, timeout_budget=10, p=0.85):
        super().__init__(seed, timeout_budget)
        self.p = p

    def choose(self, sched, enabled, me):
        runs, touts = self._split(enabled)
        for i in runs:
            if enabled[i][0] is me and self.rng.random() < self.p:
                return i
        if not runs:
            return self._spend(enabled, self.rng.choice(touts))
        pool = runs + (touts if self.timeout_budget > 0 else [])
        return self._spend(enabled, self.rng.choice(pool))


class PCT(Base):
    """Random priorities with d priority-change points (Burckhardt et al.):
    the highest-priority enabled thread always runs."""

    name = "pct"

    def __init__(self, seed, timeout_budget=10, d=2, horizon=400):
        super().__init__(seed, timeout_budget)
        self.prio = {}
        self.change_at = sorted(self.rng.randint(1, horizon) for _ in range(d))
        self.low = 0

    def _p(self, st):
        if st.name not in self.prio:
            self.prio[st.name] = self.rng.random() + 1.0
        return self.prio[st.name]

    def choose(self, sched, enabled, me):
        while self.change_at and sched.steps >= self.change_at[0]:
            self.change_at.pop(0)
            self.low -= 1
            self.prio[me.name] = self.low  # demote whoever is running now
        runs, touts = self._split(enabled)
        pool = runs + (touts if self.timeout_budget > 0 else [])
        if not pool:
            pool = touts
        best = max(pool, key=lambda i: (self._p(enabled[i][0]), -i))
        return self._spend(enabled, best)


class Starve(Base):
    """One chosen thread (by registration index) is scheduled only when nothing else is enabled."""

    name = "starve"

    def __init__(self, seed, timeout_budget=10, victim=1, impatient=False):
        super().__init__(seed, timeout_budget)
        self.victim = victim
        self.impatient = impatient  # the others' timed waits (a put on a full bounded queue, a timed join) expire before the victim moves

    def choose(self, sched, enabled, me):
        runs, touts = self._split(enabled)
        names = [st.name for st in sched.states]
        victim = names[self.victim % len(names)]
        others = [i for i in runs if enabled[i][0].name != victim]
        if others:
            pool = others + ([i for i in touts if enabled[i][0].name != victim] if self.timeout_budget > 0 else [])
            return self._spend(enabled, self.rng.choice(pool))
        if runs:
            waiting = [i for i in touts if enabled[i][0].name != victim]
            if self.impatient and waiting and self.timeout_budget > 0 and self.rng.random() < 0.8:
                return self._spend(enabled, self.rng.choice(waiting))
            return self.rng.choice(runs)
        return self._spend(enabled, self.rng.choice(touts))


class TimeoutStorm(Base):
    """Fires queue-wait timeouts whenever it can, while the budget lasts."""

    name = "timeout-storm"

    def choose(self, sched, enabled, me):
        runs, touts = self._split(enabled)
        if touts and self.timeout_budget > 0 and self.rng.random() < 0.8:
            return self._spend(enabled, self.rng.choice(touts))
        if runs:
            return self.rng.choice(runs)
        return self._spend(enabled, self.rng.choice(touts))


class Marathon(Base):
    """A source that stalls for a very long time: whenever some worker is waiting on an empty inbox, its queue-wait timeout
    fires - `n` times in all - before anybody else is allowed to make progress; afterwards uniform."""

    name = "marathon"

    def __init__(self, seed, n):
        super().__init__(seed, 10)
        self.left = n
        self.allow_idle_steps = 3 * n + 1500  # the stall is deliberate: the no-progress verdict must wait it out

    def choose(self, sched, enabled, me):
        runs, touts = self._split(enabled)
        if self.left > 0 and touts:
            self.left -= 1
            # keep hammering the same waiting thread (the first one in registration order)
            return touts[0]
        if self.left > 0:
            # nobody is waiting yet: let the waiting thread get back to its get() first, then the others
            for i in runs:
                if enabled[i][0].name.startswith("obs"):
                    return i
            return self.rng.choice(runs)
        pool = runs + (touts if self.timeout_budget > 0 else [])
        return self._spend(enabled, self.rng.choice(pool or touts))


class Scripted(Base):
    """Replays a recorded decision list; falls back to index 0 when the script ends."""

    name = "scripted"

    def __init__(self, script):
        super().__init__(0, 0)
        self.script = list(script)
        self.pos = 0
        self.diverged = False

    def choose(self, sched, enabled, me):
        if self.pos < len(self.script):
            i = self.script[self.pos]
            self.pos += 1
            if i < len(enabled):
                return i
            self.diverged = True
        return 0


def make(name, seed, timeout_budget):
    rng = random.Random(seed)
    if name == "uniform":
        return Uniform(seed, timeout_budget)
    if name == "sticky":
        return Sticky(seed, timeout_budget, p=rng.choice((0.6, 0.85, 0.95)))
    if name == "pct":
        return PCT(seed, timeout_budget, d=rng.choice((1, 2, 3)), horizon=rng.choice((50, 200, 600)))
    if name == "starve":
        return Starve(seed, timeout_budget, victim=rng.randint(0, 5))
    if name == "timeout-storm":
        return TimeoutStorm(seed, timeout_budget)
    raise ValueError(name)


NAMES = ("uniform", "sticky", "pct", "starve", "timeout-storm")
