"""Independent objects used from several threads at once.

Every property is a statement about one object / one call; none of them says "as long as the
process has a single thread".  A module-level cache, scratch buffer or shared helper object is
invisible to any single-threaded workload and breaks the statement as soon as two threads use the
library at the same time on objects that have nothing to do with each other.

run_parallel() executes a list of thunks, one per thread, under the deterministic scheduler of
sched/core.py: exactly one thread runs at a time and hands over at statement starts (or between
bytecode instructions) of any auditok module, chosen by a seeded strategy - so an interleaving that
the interpreter would produce once in a million runs is produced on purpose, and can be replayed.
check_parallel() compares what each thunk returned with what the same thunk returns when run alone.
A second, unscheduled pass (real threads, switch interval 1e-6 s) complements it."""

import sys
import threading

from . import harness as H
from . import strategies as S
from .core import SchedAbort


def run_parallel(thunks, seed, line_p=0.2, gran="line", strategy="uniform", step_cap=200000, setup=None):
    """-> (results, info): results[i] = ("ok", value) | ("exc", repr) | None (never finished)"""
    import random

    results = [None] * len(thunks)

    def script(sched):
        threads = []
        if setup is not None:
            setup()  # the shared object is built inside the run: the locks, events, queues it creates are the scheduler's
        for i, th in enumerate(thunks):
            holder = {}

            def body(i=i, th=th, holder=holder):
                st = holder["st"]
                try:
                    sched.thread_begin(st)
                    results[i] = ("ok", th())
                except SchedAbort:
                    pass
                except BaseException as exc:  # noqa: BLE001 - the exception IS the observation
                    results[i] = ("exc", type(exc).__name__ + ": " + str(exc)[:200])
                finally:
                    sched.thread_end(st)

            t = threading.Thread(target=body, daemon=True)
            holder["st"] = sched.register_thread(t, f"t{i}")
            threads.append(t)
            t.start()
        sched.yield_point("started")

    strat = S.make(strategy, seed, 0)
    strat.allow_idle_steps = step_cap + 1  # no queues here: "no message was produced for N steps" means nothing
    sched, info = H.run_scheduled(script, strat, step_cap=step_cap, line_p=line_p, line_rng=random.Random(seed ^ 0xA11CE), gran=gran, scope="all",
                                  wall_cap_s=120.0)
    info["steps"] = sched.steps
    info["context_switches"] = sched.context_switches
    info["aborted"] = sched.aborted
    return results, info


def run_real_threads(thunks, rounds=1):
    """The same thunks on real, unscheduled threads released together (switch interval 1e-6 s)."""
    results = [None] * len(thunks)
    barrier = threading.Barrier(len(thunks))

    def body(i, th):
        try:
            barrier.wait(10)
            v = None
            for _ in range(rounds):
                v = th()
            results[i] = ("ok", v)
        except BaseException as exc:  # noqa: BLE001
            results[i] = ("exc", type(exc).__name__ + ": " + str(exc)[:200])

    old = sys.getswitchinterval()
    sys.setswitchinterval(1e-6)
    try:
        ts = [threading.Thread(target=body, args=(i, th), daemon=True) for i, th in enumerate(thunks)]
        for t in ts:
            t.start()
        for t in ts:
            t.join(60)
    finally:
        sys.setswitchinterval(old)
    return results


def check_parallel(ctx, what, thunks, seed, describe=None, line_p=None, gran=None, real=True, setup=None):
    """thunks: callables without arguments returning a comparable value; each builds/uses its OWN objects.
    Reports a violation '<what>-differs-when-another-thread-uses-the-library' when a thunk's result under an
    interleaving differs from its result when run alone.  -> True when everything agreed."""
    import random

    rng = random.Random(seed)
    alone = []
    if setup is not None:
        setup()
    for th in thunks:
        try:
            alone.append(("ok", th()))
        except Exception as exc:  # noqa: BLE001
            alone.append(("exc", type(exc).__name__ + ": " + str(exc)[:200]))
    p = line_p if line_p is not None else rng.choice((0.05, 0.2, 0.5))
    g = gran if gran is not None else rng.choice(("line", "line", "instr"))
    if g == "instr":
        p = min(p, 0.1)
    inside = setup is not None and bool(seed & 2)
    got, info = run_parallel(thunks, seed, line_p=p, gran=g, strategy=rng.choice(("uniform", "uniform", "sticky", "pct")), setup=setup if inside else None)
    if inside:
        ctx.count("parallel_rounds_with_the_shared_object_built_inside_the_run")
        setup()
    ctx.count("parallel_rounds")
    ctx.count("parallel_threads", len(thunks))
    ctx.count("parallel_preemptions", info.get("line_preemptions", 0))
    ctx.count("parallel_context_switches", info.get("context_switches", 0))
    if info.get("detached_threads"):
        # a thread sat in a blocking call the scheduler does not know (a real lock of an object built before the run): the
        # others went on without it
        ctx.count("parallel_threads_found_blocked_outside_the_scheduler", info["detached_threads"])
    ok = True
    if info.get("aborted") is not None and info["aborted"][0] in ("step-cap", "wall-cap"):
        ctx.count("inconclusive_parallel_rounds")
        return True
    if info.get("aborted") is not None:
        ctx.violation(what + "-threads-block-each-other", {"case": describe, "seed": seed, "line_p": p, "gran": g, "verdict": repr(info["aborted"])[:400]})
        return False
    for i, (a, b) in enumerate(zip(alone, got)):
        if a != b:
            ok = False
            ctx.violation(what + "-differs-when-another-thread-uses-the-library",
                          {"case": describe, "seed": seed, "line_p": p, "gran": g, "thread": i, "alone": _short(a), "interleaved": _short(b),
                           "context_switches": info.get("context_switches")})
            break
    if ok and real:
        got2 = run_real_threads(thunks, rounds=3)
        ctx.count("parallel_real_thread_rounds")
        for i, (a, b) in enumerate(zip(alone, got2)):
            if a != b:
                ok = False
                ctx.violation(what + "-differs-when-another-thread-uses-the-library",
                              {"case": describe, "mode": "real threads, switch interval 1e-6", "thread": i, "alone": _short(a), "interleaved": _short(b)})
                break
    return ok


def _short(x):
    r = repr(x)
    return r if len(r) < 400 else r[:400] + "..."
