"""Real-time stress mode: unmodified queue.Queue and threads, tiny switch
interval, tiny observer timeouts, random sleeps in source and observers.
Its watchdog (generous wall-clock) yields 'inconclusive', never a violation."""

import sys
import threading
import time

import auditok.workers as W
from auditok.util import AudioReader

from .. import audiocommon as AC


class SleepyReader(AudioReader):
    def vf_init(self, rng, p):
        self.vf_rng = rng
        self.vf_p = p
        return self

    def read(self):
        if self.vf_rng.random() < self.vf_p:
            time.sleep(self.vf_rng.choice((0, 0.0002, 0.002)))
        return AudioReader.read(self)


class SleepyObserver(W.Worker):
    def __init__(self, rng, p, timeout):
        self.vf_rng = rng
        self.vf_p = p
        self.vf_log = []
        super().__init__(timeout=timeout)

    def _process_message(self, message):
        if self.vf_rng.random() < self.vf_p:
            time.sleep(self.vf_rng.choice((0, 0.0003, 0.003)))
        _id, region = message
        self.vf_log.append((_id, region.start, region.end, bytes(region)))


def run_real(case, data, rng, watchdog_s=60.0, twice=False):
    import random

    old = sys.getswitchinterval()
    sys.setswitchinterval(1e-6)
    try:
        r = random.Random(rng.getrandbits(32))
        rkw = {"hop_dur": case["hop"] / case["rate"]} if case.get("hop") else {}
        reader = SleepyReader(data, block_dur=case["w"], **rkw, **AC.audio_kwargs(case)).vf_init(r, rng.choice((0.0, 0.3, 1.0)))
        obs = [SleepyObserver(random.Random(rng.getrandbits(32)), rng.choice((0.0, 0.5, 1.0)), rng.choice((0.0005, 0.005, 0.2)))
               for _ in case["observers"]]
        kw = {k: v for k, v in AC.split_kwargs(case).items() if k != "analysis_window"}
        tw = W.TokenizerWorker(reader, obs, **kw)
        obs2, tw2 = [], None
        if twice:
            # two pipelines are set up on ONE reader before either runs; they run one after the other (the first closes the reader
            # at the end of the stream, the second opens it again: a bytes source restarts at its beginning)
            obs2 = [SleepyObserver(random.Random(rng.getrandbits(32)), 0.0, 0.2) for _ in case["observers"]]
            tw2 = W.TokenizerWorker(reader, obs2, **kw)
        raised = []
        old_hook = threading.excepthook

        def hook(args):
            if args.thread in (tw, tw2) or args.thread in obs or args.thread in obs2:
                raised.append((type(args.thread).__name__, repr(args.exc_value)[:200]))
            else:
                old_hook(args)

        threading.excepthook = hook

        def run_one(t_, obs_):
            t_.start_all()
            threading.Thread.join(t_, max(0.0, deadline - time.monotonic()))
            if raised and not t_.is_alive():
                # the tokenizer thread died of an exception: its observers will never be told to stop - that IS the finding;
                # release them instead of waiting for the watchdog
                for o in obs_:
                    try:
                        o.send(W._STOP_PROCESSING)
                    except Exception:
                        pass
            for o in obs_:
                threading.Thread.join(o, max(0.0, deadline - time.monotonic()))

        deadline = time.monotonic() + watchdog_s
        try:
            run_one(tw, obs)
            if tw2 is not None and not any(t.is_alive() for t in [tw] + obs):
                run_one(tw2, obs2)
        finally:
            threading.excepthook = old_hook
        obs = obs + obs2
        late = [type(t).__name__ for t in [tw] + ([tw2] if tw2 is not None else []) + obs if t.is_alive()]
        inconclusive = None
        if late:
            # cannot tell slow from stuck by the clock alone: wait a little more, then report as inconclusive
            inconclusive = f"threads still alive after {watchdog_s}s: {late}"
            for t in [tw] + obs:
                try:
                    t.send(W._STOP_PROCESSING)
                except Exception:
                    pass
        return {"logs": {f"obs{i}": o.vf_log for i, o in enumerate(obs)}, "alive": [], "inconclusive": inconclusive, "raised": raised}
    finally:
        sys.setswitchinterval(old)


def run_real_saver(case, data, rng, tmpdir, watchdog_s=60.0):
    """Real threads, real queue.Queue: reader wrapped by the StreamSaverWorker, a joiner and a sleepy observer."""
    import os
    import random

    old = sys.getswitchinterval()
    sys.setswitchinterval(1e-6)
    try:
        r = random.Random(rng.getrandbits(32))
        rkw = {"hop_dur": case["hop"] / case["rate"]} if case.get("hop") else {}
        reader = SleepyReader(data, block_dur=case["w"], **rkw, **AC.audio_kwargs(case)).vf_init(r, rng.choice((0.0, 0.3, 1.0)))
        path = os.path.join(tmpdir, "stress_stream.wav")
        saver = W.StreamSaverWorker(reader, filename=path, cache_size_sec=case["saver"]["cache_size_sec"], timeout=rng.choice((0.0005, 0.005, 0.2)))
        saver.start()
        jpath = os.path.join(tmpdir, "stress_joined.wav")
        joiner = W.AudioEventsJoinerWorker(case["silence"], jpath, None, case["rate"], case["width"], case["channels"], timeout=rng.choice((0.0005, 0.2)))
        obs = SleepyObserver(random.Random(rng.getrandbits(32)), rng.choice((0.0, 0.5, 1.0)), rng.choice((0.0005, 0.005, 0.2)))
        kw = {k: v for k, v in AC.split_kwargs(case).items() if k != "analysis_window"}
        tw = W.TokenizerWorker(saver, [joiner, obs], **kw)
        tw.start_all()
        deadline = time.monotonic() + watchdog_s
        for t in (tw, joiner, obs, saver):
            threading.Thread.join(t, max(0.0, deadline - time.monotonic()))
        late = [type(t).__name__ for t in (tw, joiner, obs, saver) if t.is_alive()]
        if late:
            for t in (tw, joiner, obs, saver):
                try:
                    t.send(W._STOP_PROCESSING)
                except Exception:
                    pass
            return {"inconclusive": f"threads still alive after {watchdog_s}s: {late}"}
        return {"inconclusive": None, "stream": path, "joined": jpath, "log": obs.vf_log}
    finally:
        sys.setswitchinterval(old)
