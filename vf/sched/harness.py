"""Runs a worker pipeline of the real auditok.workers under the deterministic
scheduler: installs SchedQueue and scheduled Worker.start/join for the
duration of one run, provides instrumented reader / observers."""

import gc
import sys
import threading
import time

import auditok.workers as W
from auditok.io import BufferAudioSource
from auditok.util import AudioReader

from .core import DONE, SchedAbort, SchedCondition, SchedEvent, SchedLock, SchedQueue, SchedRLock, Scheduler

_install_lock = threading.Lock()


class SchedReader(AudioReader):
    """A real AudioReader whose read() is bracketed by scheduling points and
    logged (call before invoking, return after the reply)."""

    def vf_init(self, sched):
        self.vf_sched = sched
        self.vf_reads_started = 0
        self.vf_blocks = []  # every value returned, None included
        self.vf_closed = 0
        return self

    def read(self):
        s = self.vf_sched
        s.yield_point("read-begin")
        s.progress()
        self.vf_reads_started += 1
        if getattr(self, "vf_fault_at", None) is not None and self.vf_reads_started == self.vf_fault_at:
            self.vf_fault_raised = True
            raise OSError("injected source fault")  # a device error in the middle of the stream
        gate = getattr(self, "vf_gate", None)
        if gate is not None and self.vf_reads_started > gate[0] and not gate[1]():
            s.wait_until(gate[1])  # a live source that has nothing more to give until something else has happened
        victim = getattr(self, "vf_victim", None)
        if victim is not None:
            # how many blocks were read since the writer thread last ran (its backlog, whatever it keeps it in)
            st = victim()
            if st is not None:
                if st.steps == getattr(self, "vf_victim_steps", -1):
                    self.vf_idle_reads = getattr(self, "vf_idle_reads", 0) + 1
                    self.vf_max_idle_reads = max(getattr(self, "vf_max_idle_reads", 0), self.vf_idle_reads)
                else:
                    self.vf_victim_steps, self.vf_idle_reads = st.steps, 0
        data = AudioReader.read(self)
        self.vf_blocks.append(data if data is None else bytes(data))  # (a block may be a bytearray / memoryview: the log keeps its content)
        s.yield_point("read-end")
        return data


class FaultyCloseSource(BufferAudioSource):
    """A source whose close() raises once (an I/O error reported while closing the device)."""

    vf_raised = False
    vf_reader = None

    def close(self):
        if not self.vf_raised and self.vf_reader is not None:
            self.vf_raised = True
            self.vf_reader.vf_close_fault_raised = True
            raise OSError("injected close fault")
        return super().close()


class OuterProxy:
    """Sits between the tokenizer and the reader it was given (e.g. the
    StreamSaverWorker) and logs what the tokenizer actually saw."""

    def __init__(self, inner):
        object.__setattr__(self, "_vf_inner", inner)
        object.__setattr__(self, "vf_seen", [])

    def read(self):
        data = self._vf_inner.read()
        self.vf_seen.append(data if data is None else bytes(data))
        return data

    def __getattr__(self, name):
        return getattr(object.__getattribute__(self, "_vf_inner"), name)


class RecObserver(W.Worker):
    """Recording observer: logs every message it processes."""

    def __init__(self, sched, name, timeout=0.2):
        self.vf_sched = sched
        self.vf_name = name
        self.vf_log = []
        super().__init__(timeout=timeout)

    def _process_message(self, message):
        self.vf_sched.yield_point("observer-begin")
        self.vf_sched.progress()
        _id, region = message
        self.vf_log.append((_id, region.start, region.end, bytes(region)))
        self.vf_sched.yield_point("observer-end")


class StopperObserver(RecObserver):
    """An observer that itself asks the tokenizer to stop after its k-th detection ("record until the third event")."""

    def vf_arm(self, holder, stop_at):
        self.vf_holder, self.vf_stop_at, self.vf_stopped = holder, stop_at, False
        return self

    def _process_message(self, message):
        super()._process_message(message)
        if not self.vf_stopped and len(self.vf_log) >= self.vf_stop_at:
            self.vf_stopped = True
            self.vf_holder["stop_called"] = True
            self.vf_holder["stopper_name"] = self.vf_name
            self.vf_holder["tw"].stop()


class FaultyObserver(RecObserver):
    """An observer that dies (raises) while processing its k-th message: the others must not notice."""

    def __init__(self, sched, name, die_at, timeout=0.2):
        self.vf_die_at = die_at
        super().__init__(sched, name, timeout)

    def _process_message(self, message):
        if len(self.vf_log) + 1 >= self.vf_die_at:
            self.vf_died = True
            raise RuntimeError("injected observer fault")
        super()._process_message(message)


class Installed:
    """Context manager: auditok.workers.Queue -> SchedQueue, Worker.start/join -> scheduled."""

    def __init__(self, sched, line_p=0.0, line_rng=None, gran="line", scope="workers"):
        self.sched = sched
        self.line_p = line_p
        self.line_rng = line_rng
        self.gran = gran  # "line": statement starts; "instr": every bytecode instruction (races inside one statement)
        self.scope = scope  # "workers": auditok/workers.py; "all": every auditok module the threads execute
        self.counter = 0
        self.lines_seen = set()
        self.preemptions = 0

    def __enter__(self):
        _install_lock.acquire()
        sched = self.sched
        self.saved_globals = {}
        self.orig_start = W.Worker.__dict__.get("start")
        self.orig_join = W.Worker.__dict__.get("join")
        SchedQueue.current_scheduler = sched
        self._substitute_globals()
        inst = self
        real_start = threading.Thread.start
        real_join = threading.Thread.join

        def start(worker):
            if not sched.managed():
                return real_start(worker)
            inst.counter += 1
            name = worker.__dict__.get("vf_name") or f"{type(worker).__name__}#{inst.counter}"
            orig_run = worker.run
            # from here to the real start no code of the library runs (a line-level yield in between could hand the token to a
            # thread that does not exist yet)
            st = sched.register_thread(worker, name)
            worker.__dict__["_vf_state"] = st

            def run():
                try:
                    sched.thread_begin(st)
                    orig_run()
                except SchedAbort:
                    pass
                except BaseException as exc:  # a worker thread must never die of an exception
                    st.exc = repr(exc)
                    sched.thread_exceptions.append((name, repr(exc)))
                finally:
                    sched.thread_end(st)

            worker.__dict__["run"] = run
            real_start(worker)
            sched.yield_point("start")

        def join(worker, timeout=None):
            st = worker.__dict__.get("_vf_state")  # not getattr(): a worker's own __getattr__ may recurse on unknown names
            if st is not None and sched.managed():
                hook = getattr(sched, "on_join", None)
                if hook is not None:
                    hook(worker)
                done = sched.join(st, may_time_out=timeout is not None)
                if done:
                    real_join(worker, 10)
                return
            return real_join(worker, timeout)

        real_is_alive = threading.Thread.is_alive

        def is_alive(worker):
            # liveness of a scheduled worker in LOGICAL time: dead from the step at which its run() returned (the real thread needs a
            # few more microseconds, which would make the answer depend on the operating system), and asking is a scheduling point
            st = worker.__dict__.get("_vf_state")
            if st is not None and sched.managed():
                sched.yield_point("is_alive")
                return st.status != DONE
            return real_is_alive(worker)

        self.orig_is_alive = W.Worker.__dict__.get("is_alive")
        W.Worker.start = start
        W.Worker.join = join
        W.Worker.is_alive = is_alive
        self.gc_was = gc.isenabled()
        gc.disable()
        if self.line_p > 0:
            self._install_lines()
        return self

    def _substitute_globals(self):
        """Whatever NAME auditok.workers uses for its FIFO queue class (Queue, SimpleQueue, an alias, `queue.Queue`
        through the module) or for threading.Event is re-bound to the scheduler's version for the duration of the run.
        Looked up at call time by the code under test, so nothing in /repo is edited.  The substitution is checked to
        be live afterwards (sched.puts / gets > 0), never assumed."""
        import queue as _q
        import types

        fifo = {_q.Queue, _q.SimpleQueue}

        class _Shim(types.SimpleNamespace):
            def __init__(self, real, **over):
                super().__init__(**over)
                self.__dict__["_vf_real"] = real

            def __getattr__(self, name):
                return getattr(self.__dict__["_vf_real"], name)

        import auditok.core
        import auditok.io
        import auditok.signal
        import auditok.util

        lock_t, rlock_t = type(threading.Lock()), type(threading.RLock())
        self.saved_module_globals = []

        def put(mod, name, new):
            self.saved_module_globals.append((mod, name, getattr(mod, name)))
            setattr(mod, name, new)

        for mod in (W, auditok.core, auditok.util, auditok.io, auditok.signal):
            for name, val in list(vars(mod).items()):
                try:
                    if mod is W and isinstance(val, type) and val in fifo:
                        put(mod, name, SchedQueue)
                    elif mod is W and val is threading.Event:
                        put(mod, name, SchedEvent)
                    elif mod is W and val is _q:
                        put(mod, name, _Shim(_q, Queue=SchedQueue, SimpleQueue=SchedQueue))
                    elif val is threading:
                        # Event only in workers.py (a stop flag); locks everywhere (a locked cache, a rate-limited log line)
                        over = dict(Lock=SchedLock, RLock=SchedRLock, Condition=SchedCondition)
                        if mod is W:
                            over["Event"] = SchedEvent
                        put(mod, name, _Shim(threading, **over))
                    elif val is threading.Lock:
                        put(mod, name, SchedLock)
                    elif val is threading.RLock:
                        put(mod, name, SchedRLock)
                    elif val is threading.Condition:
                        put(mod, name, SchedCondition)
                    elif isinstance(val, lock_t):
                        put(mod, name, SchedLock())  # a module-level lock object created at import time
                    elif isinstance(val, rlock_t):
                        put(mod, name, SchedRLock())
                except TypeError:
                    continue

    def _install_lines(self):
        mon = sys.monitoring
        self.tool = mon.DEBUGGER_ID
        mon.use_tool_id(self.tool, "vf-sched")
        inst = self
        sched = self.sched
        codes = []

        import auditok.core
        import auditok.io
        import auditok.signal
        import auditok.util

        modules = [W] if self.scope == "workers" else [W, auditok.core, auditok.util, auditok.io, auditok.signal]
        files = {m.__file__ for m in modules}
        names = {m.__name__ for m in modules}

        def collect(obj, seen):
            import types

            if isinstance(obj, types.FunctionType):
                if obj.__code__.co_filename in files:
                    walk(obj.__code__)
            elif isinstance(obj, type):
                for v in vars(obj).values():
                    if isinstance(v, (types.FunctionType, type)) and id(v) not in seen:
                        seen.add(id(v))
                        collect(v, seen)
                    elif isinstance(v, property):
                        for f in (v.fget, v.fset, v.fdel):
                            if f is not None:
                                collect(f, seen)

        def walk(code):
            codes.append(code)
            for c in code.co_consts:
                if hasattr(c, "co_code"):
                    walk(c)

        seen = set()
        for m in modules:
            for v in list(vars(m).values()):
                if getattr(v, "__module__", None) in names:
                    collect(v, seen)
        self.codes = codes
        self.event = mon.events.INSTRUCTION if self.gran == "instr" else mon.events.LINE

        def on_line(code, line):
            # line = line number (LINE) or instruction offset (INSTRUCTION); either way a distinct pre-emption site
            inst.lines_seen.add((code.co_filename, code.co_firstlineno, line) if inst.scope != "workers" or inst.gran == "instr" else line)
            if inst.line_rng.random() < inst.line_p and sched.managed() and sched.me() is sched.current:
                inst.preemptions += 1
                sched.yield_point("line")

        mon.register_callback(self.tool, self.event, on_line)
        for c in codes:
            mon.set_local_events(self.tool, c, self.event)

    def __exit__(self, *a):
        try:
            if self.line_p > 0:
                mon = sys.monitoring
                for c in self.codes:
                    mon.set_local_events(self.tool, c, 0)
                mon.register_callback(self.tool, self.event, None)
                mon.free_tool_id(self.tool)
            for mod, name, orig in reversed(getattr(self, "saved_module_globals", [])):
                setattr(mod, name, orig)
            for attr, orig in (("start", self.orig_start), ("join", self.orig_join), ("is_alive", getattr(self, "orig_is_alive", None))):
                if orig is None:
                    try:
                        delattr(W.Worker, attr)
                    except AttributeError:
                        pass
                else:
                    setattr(W.Worker, attr, orig)
            SchedQueue.current_scheduler = None
            if self.gc_was:
                gc.enable()
        finally:
            _install_lock.release()


def run_scheduled(script, strategy, step_cap=20000, line_p=0.0, line_rng=None, wall_cap_s=60.0, gran="line", scope="workers"):
    """script(sched) is executed by the calling thread (the scheduled 'main').
    -> (sched, info) where info holds abort/exception data; never raises for
    a verdict, only for harness bugs."""
    sched = Scheduler(strategy, step_cap=step_cap, wall_cap_s=wall_cap_s)
    info = {"script_exception": None, "lines_seen": 0, "line_preemptions": 0}
    inst = Installed(sched, line_p, line_rng, gran, scope)
    with inst:
        sched.adopt_current("main")
        try:
            script(sched)
            sched.join_all()
        except SchedAbort:
            pass
        except Exception as exc:
            import traceback

            info["script_exception"] = "".join(traceback.format_exception(exc))[-1500:]
            sched._abort("script-exception", {"exception": repr(exc)})
        finally:
            me = sched.me()
            me.status = DONE
            # release everything and wait (wall-clock, generous) for the OS threads
            if sched.aborted is not None:
                for st in sched.states:
                    st.event.set()
            for st in sched.states:
                if st.thread is not threading.current_thread():
                    threading.Thread.join(st.thread, 10)
                    if threading.Thread.is_alive(st.thread):
                        info.setdefault("os_threads_alive", []).append(st.name)
        info["lines_seen"] = len(inst.lines_seen)
        info["line_preemptions"] = inst.preemptions
        info["detached_threads"] = sched.detached_threads
        info["blocked_outside"] = sched.blocked_outside[:5]
    gc.collect()
    return sched, info
