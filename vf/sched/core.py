"""Deterministic cooperative scheduler for auditok.workers.

Real threading.Thread objects execute the real run() methods, but a token is
passed so that exactly one managed thread runs at a time and every hand-over
is a recorded decision of a seeded strategy.  Shared-state operations of the
code under test (queue put/get/get_nowait, Thread.start/join) and explicit
yield points of the harness (source reads, observer callbacks, optional
line-level pre-emption) are the scheduling points.  A blocked get(timeout=..)
on an empty queue offers the scheduler the extra action "fire the timeout",
so slow/fast threads and every pattern of queue-wait timeouts are choices in
logical time, never sleeps.

Verdicts (logical, never wall-clock):
  deadlock         no enabled action while some thread is not DONE
  non-termination  > NONTERM_STEPS consecutive steps in which only timeouts are enabled
  step cap         inconclusive

A token holder that blocks in a primitive the scheduler does not know (a real threading.Lock of an object built before the
run, a pipe, a Barrier ...) would stop the world: the waiting threads notice that its innermost frame does not move (wall
clock, used for nothing but this), take the token away from it ("detached") and go on; when it comes back to a scheduling
point it queues up for the token like everybody else.  Between waking up and that point it runs beside the token holder -
as any real thread would.  If nobody else can run the token is parked until it comes back; the wall cap (inconclusive)
bounds that wait.
"""

import queue as _queue
import threading
import time

RUNNABLE, BLOCKED_GET, BLOCKED_PUT, BLOCKED_JOIN, BLOCKED_COND, DONE = "RUNNABLE", "BLOCKED_GET", "BLOCKED_PUT", "BLOCKED_JOIN", "BLOCKED_COND", "DONE"
NONTERM_STEPS = 200
NO_PROGRESS_STEPS = 1500  # steps without any put / delivered get / read / message / thread start or end
STALL_POLL_S = 0.25  # waiting threads look this often whether the token holder still moves
STALL_S = 1.5  # a token holder whose innermost frame did not move for this long sits in a blocking call the scheduler does not know


class SchedAbort(BaseException):
    """Unwinds every managed thread when a run is aborted (deadlock, non-termination, step cap)."""


class TState:
    __slots__ = ("name", "thread", "status", "event", "queue", "may_time_out", "join_target", "cond", "timeout_fired",
                 "steps", "exc", "detached")

    def __init__(self, name, thread):
        self.name = name
        self.thread = thread
        self.status = RUNNABLE
        self.event = threading.Event()
        self.queue = None
        self.may_time_out = False
        self.join_target = None
        self.cond = None
        self.timeout_fired = False
        self.steps = 0
        self.exc = None
        self.detached = False  # holds no token although it runs: it sat in a blocking call unknown to the scheduler


class Scheduler:
    def __init__(self, strategy, step_cap=20000, wall_cap_s=60.0):
        self.strategy = strategy
        self.mutex = threading.RLock()
        self.by_ident = {}
        self.states = []  # registration order == deterministic naming order
        self.trace = []  # (step, chosen thread name, action, n_enabled)
        self.decisions = []  # index chosen among the sorted enabled actions (replay script)
        self.steps = 0
        self.step_cap = step_cap
        self.aborted = None  # None | ("deadlock"|"non-termination"|"step-cap"|"wall-cap", detail)
        self.only_timeouts_run = 0
        self.last_progress = 0
        self.timeouts_fired = 0
        self.context_switches = 0
        self.max_queue_depth = 0
        self.puts = 0
        self.gets = 0
        self.current = None
        self.events = []  # harness-visible event log: (step, thread, kind, info)
        self.t0 = time.monotonic()
        self.wall_cap_s = wall_cap_s
        self.thread_exceptions = []
        self.timed_waits = 0  # blocking waits that carried a timeout (the implementation offers the scheduler "fire the timeout")
        self.detached_threads = 0  # times the token was taken away from a thread blocked outside the scheduler's primitives
        self._stall = None  # ((steps, thread name, frame id, instruction), first seen)
        self.parked_tokens = 0
        self.blocked_outside = []  # (thread, file, line) where a thread was found blocked outside the scheduler's primitives

    # ---- registration -----------------------------------------------------------
    def adopt_current(self, name="main"):
        st = TState(name, threading.current_thread())
        with self.mutex:
            self.by_ident[threading.get_ident()] = st
            self.states.append(st)
            self.current = st
        return st

    def me(self):
        return self.by_ident.get(threading.get_ident())

    def managed(self):
        st = self.by_ident.get(threading.get_ident())
        return st is not None and st.status != DONE and self.aborted is None

    def register_thread(self, thread, name):
        st = TState(name, thread)
        with self.mutex:
            self.states.append(st)
            self.last_progress = self.steps
        return st

    def progress(self):
        self.last_progress = self.steps

    def log(self, kind, info=None):
        st = self.me()
        self.events.append((self.steps, st.name if st else "?", kind, info))

    # ---- enabled actions ---------------------------------------------------------
    def _enabled(self):
        out = []
        for st in self.states:
            if st.detached:
                continue
            if st.status == RUNNABLE:
                out.append((st, "run"))
            elif st.status == BLOCKED_GET:
                if st.queue._items:
                    out.append((st, "run"))
                elif st.may_time_out:
                    out.append((st, "timeout"))
            elif st.status == BLOCKED_PUT:
                if len(st.queue._items) < st.queue.maxsize:
                    out.append((st, "run"))
                elif st.may_time_out:
                    out.append((st, "timeout"))
            elif st.status == BLOCKED_JOIN:
                if st.join_target.status == DONE:
                    out.append((st, "run"))
                elif st.may_time_out:
                    out.append((st, "timeout"))
            elif st.status == BLOCKED_COND:
                if st.cond():
                    out.append((st, "run"))
                elif st.may_time_out:
                    out.append((st, "timeout"))
        return out

    def _abort(self, kind, detail):
        if self.aborted is None:
            self.aborted = (kind, detail)
        for st in self.states:
            st.event.set()

    def describe_threads(self):
        d = []
        for st in self.states:
            e = {"thread": st.name, "status": st.status}
            if st.status in (BLOCKED_GET, BLOCKED_PUT):
                e["waiting_on_queue_of"] = st.queue.owner
                e["timeout"] = st.may_time_out
            if st.status == BLOCKED_JOIN:
                e["joining"] = st.join_target.name
            d.append(e)
        return d

    # ---- the hand-over -----------------------------------------------------------
    def _switch(self, me, finishing=False):
        """Called by the token holder with its own state already updated."""
        reattach = False
        with self.mutex:
            if self.aborted is not None:
                if finishing:
                    return
                raise SchedAbort()
            if me.detached:
                # back from a blocking call the scheduler knew nothing about: the token went on without this thread
                me.detached = False
                if self.current is not None and self.current is not me:
                    if finishing:
                        return
                    reattach = True
                else:
                    self.current = me  # the token was parked: nobody else could run
        if reattach:
            self._wait_turn(me)
            if self.aborted is not None:
                raise SchedAbort()
            return
        with self.mutex:
            self.steps += 1
            me.steps += 1
            if me.may_time_out and me.status not in (RUNNABLE, DONE):
                self.timed_waits += 1
            if self.steps > self.step_cap:
                self._abort("step-cap", {"steps": self.steps})
            elif time.monotonic() - self.t0 > self.wall_cap_s:
                self._abort("wall-cap", {"steps": self.steps})
            if self.aborted is not None:
                if finishing:
                    return
                raise SchedAbort()
            enabled = self._enabled()
            if not enabled:
                if all(st.status == DONE for st in self.states):
                    return
                if any(st.detached and st.status != DONE for st in self.states):
                    # everybody waits for a thread that is busy outside the scheduler: park the token until it is back
                    self.current = None
                    self.parked_tokens += 1
                else:
                    self._abort("deadlock", {"threads": self.describe_threads()})
                    if finishing:
                        return
                    raise SchedAbort()
            else:
                try:
                    target = self._decide(enabled, me)
                except SchedAbort:
                    if finishing:
                        return
                    raise
                if target is me and not finishing:
                    return
                target.event.set()
        if finishing:
            return
        self._wait_turn(me)
        if self.aborted is not None:
            raise SchedAbort()

    def _decide(self, enabled, me):
        """(mutex held, enabled not empty) the verdicts on cycling threads, then one decision of the strategy -> the thread
        that holds the token from now on"""
        if self.steps - self.last_progress > max(NO_PROGRESS_STEPS, getattr(self.strategy, "allow_idle_steps", 0)):
            # threads keep cycling (wait, time out, wait again ...) but nothing is produced, consumed, started or finished:
            # somebody waits for a message that nobody will ever send
            self._abort("non-termination", {"threads": self.describe_threads(), "steps_without_progress": self.steps - self.last_progress})
            raise SchedAbort()
        if all(a == "timeout" for _, a in enabled):
            self.only_timeouts_run += 1
            if self.only_timeouts_run > NONTERM_STEPS:
                self._abort("non-termination", {"threads": self.describe_threads()})
                raise SchedAbort()
        else:
            self.only_timeouts_run = 0
        idx = self.strategy.choose(self, enabled, me)
        self.decisions.append(idx)
        target, action = enabled[idx]
        self.trace.append((self.steps, target.name, action, len(enabled)))
        if action == "timeout":
            target.timeout_fired = True
            self.timeouts_fired += 1
        if target is not me:
            self.context_switches += 1
        self.current = target
        return target

    def _wait_turn(self, me):
        """Wait for the token; meanwhile watch the token holder: does it still move?"""
        while not me.event.wait(STALL_POLL_S):
            self._check_stall(me)
        me.event.clear()

    def _check_stall(self, me):
        import sys

        with self.mutex:
            if self.aborted is not None:
                return
            now = time.monotonic()
            if now - self.t0 > self.wall_cap_s:
                self._abort("wall-cap", {"steps": self.steps, "waiting_for": self.current.name if self.current is not None else None})
                return
            cur = self.current
            if cur is None or cur is me or cur.status == DONE or cur.detached:
                return
            ident = next((i for i, st in self.by_ident.items() if st is cur), None)
            frame = sys._current_frames().get(ident) if ident is not None else None
            if frame is None:
                return  # not started yet / just gone
            sig = (self.steps, cur.name, id(frame), frame.f_lasti)
            if self._stall is None or self._stall[0] != sig:
                self._stall = (sig, now)
                return
            if now - self._stall[1] < STALL_S:
                return
            # the token holder sits in a blocking call (or a very long computation): go on without it
            self._stall = None
            cur.detached = True
            enabled = self._enabled()
            if not enabled:
                cur.detached = False  # nobody else can run anyway: keep waiting for it
                return
            self.detached_threads += 1
            self.blocked_outside.append((cur.name, frame.f_code.co_filename.rsplit("/", 1)[-1], frame.f_lineno))
            try:
                target = self._decide(enabled, cur)
            except SchedAbort:
                return  # verdict recorded, everybody woken up
            target.event.set()

    def yield_point(self, kind="yield", info=None):
        me = self.me()
        if me is None or me.status == DONE or self.aborted is not None:
            if me is not None and self.aborted is not None and me.status != DONE:
                raise SchedAbort()
            return
        self._switch(me)

    # ---- thread life cycle ----------------------------------------------------------
    def thread_begin(self, st):
        self.by_ident[threading.get_ident()] = st
        self._wait_turn(st)
        if self.aborted is not None:
            raise SchedAbort()

    def thread_end(self, st):
        with self.mutex:
            st.status = DONE
            self.last_progress = self.steps
        self._switch(st, finishing=True)

    def wait_until(self, cond):
        """Harness threads only: block the caller until cond() holds (evaluated at every scheduling step)."""
        me = self.me()
        if cond():
            self.yield_point("cond")
            return
        me.status = BLOCKED_COND
        me.cond = cond
        me.may_time_out = False
        try:
            self._switch(me)
        finally:
            me.status = RUNNABLE
            me.cond = None

    def join(self, st_target, may_time_out=False):
        """-> True when the target is DONE, False when a join(timeout=..) timed out (a scheduling decision)."""
        me = self.me()
        if st_target.status != DONE:
            me.status = BLOCKED_JOIN
            me.join_target = st_target
            me.may_time_out = may_time_out
            me.timeout_fired = False
            try:
                self._switch(me)
            finally:
                me.status = RUNNABLE
                me.join_target = None
            if me.timeout_fired:
                me.timeout_fired = False
                return st_target.status == DONE
            return True
        self.yield_point("join")
        return True

    def join_all(self):
        """Harness (main) thread: wait, in scheduled fashion, for every other managed thread."""
        me = self.me()
        for st in list(self.states):
            if st is not me:
                self.join(st)


class _Items(list):
    """the queue's container, with the deque operations queue.Queue.queue offers"""

    def appendleft(self, x):
        self.insert(0, x)

    def popleft(self):
        return self.pop(0)

    def extendleft(self, it):
        for x in it:
            self.insert(0, x)


class SchedQueue:
    """Drop-in for queue.Queue inside auditok.workers, bound to one scheduler.
    Called from a thread the scheduler does not manage (a finalizer, a thread
    of another run) it degrades to a plain thread-safe queue."""

    current_scheduler = None  # set by the harness for the duration of a run

    def __init__(self, maxsize=0):
        self.sched = SchedQueue.current_scheduler
        self.maxsize = maxsize if maxsize and maxsize > 0 else 0
        self._items = _Items()
        self._plain = threading.Lock()
        # the attributes of queue.Queue that code reaches for when it wants more than put/get (a message placed at the head, a
        # peek under the queue's own lock): the container with the deque operations, the lock and its conditions, in logical time
        self.mutex = SchedLock()
        self.not_empty = SchedCondition(self.mutex)
        self.not_full = SchedCondition(self.mutex)
        self.all_tasks_done = SchedCondition(self.mutex)
        self.owner = None  # name of the worker whose inbox this is (filled in lazily)
        self.put_log = []

    @property
    def queue(self):
        return self._items

    # -- helpers
    def _managed(self):
        s = self.sched
        return s is not None and s.managed()

    def put(self, item, block=True, timeout=None):
        if self._managed():
            s = self.sched
            s.yield_point("put")
            me = s.me()
            while self.maxsize and len(self._items) >= self.maxsize:
                # a bounded queue that is full: the put blocks (or fails) exactly as queue.Queue's would
                if not block:
                    raise _queue.Full
                me.status = BLOCKED_PUT
                me.queue = self
                me.may_time_out = timeout is not None
                me.timeout_fired = False
                try:
                    s._switch(me)
                finally:
                    me.status = RUNNABLE
                    me.queue = None
                if me.timeout_fired:
                    me.timeout_fired = False
                    if len(self._items) >= self.maxsize:
                        raise _queue.Full
            with s.mutex:
                self._items.append(item)
                s.puts += 1
                s.last_progress = s.steps
                if len(self._items) > s.max_queue_depth:
                    s.max_queue_depth = len(self._items)
                hook = getattr(s, "on_put", None)
            if hook is not None:
                hook(self, item)
            return
        with self._plain:
            if self.maxsize and len(self._items) >= self.maxsize:
                raise _queue.Full
            self._items.append(item)

    def put_nowait(self, item):
        self.put(item, block=False)

    def get(self, block=True, timeout=None):
        if not self._managed():
            with self._plain:
                if self._items:
                    return self._items.pop(0)
            raise _queue.Empty
        s = self.sched
        me = s.me()
        if not block:
            s.yield_point("get_nowait")
            with s.mutex:
                if self._items:
                    s.gets += 1
                    s.last_progress = s.steps
                    return self._items.pop(0)
            raise _queue.Empty
        s.yield_point("get")
        while True:
            with s.mutex:
                if self._items:
                    s.gets += 1
                    s.last_progress = s.steps
                    return self._items.pop(0)
                if self.owner is None:
                    self.owner = me.name  # the inbox of whoever waits on it
                me.status = BLOCKED_GET
                me.queue = self
                me.may_time_out = timeout is not None
                me.timeout_fired = False
            try:
                s._switch(me)
            finally:
                me.status = RUNNABLE
                me.queue = None
            if me.timeout_fired:
                me.timeout_fired = False
                with s.mutex:
                    if self._items:  # an item arrived in the same step: deliver it
                        s.gets += 1
                        return self._items.pop(0)
                raise _queue.Empty

    def get_nowait(self):
        return self.get(block=False)

    # full / empty / qsize read shared state: a decision taken on their answer can be overtaken by another thread, so each of them
    # is a scheduling point (check-then-act on an inbox, seeded change C12-r9-1)
    def _peek(self, what):
        if self._managed():
            self.sched.yield_point(what)

    def full(self):
        self._peek("full")
        r = bool(self.maxsize) and len(self._items) >= self.maxsize
        self._peek("full-answered")
        return r

    def empty(self):
        self._peek("empty")
        r = not self._items
        self._peek("empty-answered")
        return r

    def qsize(self):
        self._peek("qsize")
        r = len(self._items)
        self._peek("qsize-answered")
        return r


class SchedEvent:
    """Drop-in for threading.Event inside auditok.workers (a stop flag is a natural alternative to a stop message):
    set / clear / is_set are scheduling points, wait() blocks in logical time and wait(timeout) may time out as a
    scheduling decision.  From an unmanaged thread it behaves like a plain event."""

    def __init__(self):
        self.sched = SchedQueue.current_scheduler
        self._flag = False
        self._real = threading.Event()

    def _managed(self):
        s = self.sched
        return s is not None and s.managed()

    def is_set(self):
        if self._managed():
            self.sched.yield_point("event-is_set")
        return self._flag

    isSet = is_set

    def set(self):
        if self._managed():
            s = self.sched
            s.yield_point("event-set")
            self._flag = True
            s.last_progress = s.steps
            hook = getattr(s, "on_signal", None)
            if hook is not None:
                hook(self)
        self._flag = True
        self._real.set()

    def clear(self):
        if self._managed():
            self.sched.yield_point("event-clear")
        self._flag = False
        self._real.clear()

    def wait(self, timeout=None):
        if not self._managed():
            return self._real.wait(timeout)
        s = self.sched
        me = s.me()
        s.yield_point("event-wait")
        if self._flag:
            return True
        me.status = BLOCKED_COND
        me.cond = lambda: self._flag
        me.may_time_out = timeout is not None
        me.timeout_fired = False
        try:
            s._switch(me)
        finally:
            me.status = RUNNABLE
            me.cond = None
        me.timeout_fired = False
        return self._flag


class SchedLock:
    """Drop-in for threading.Lock / RLock objects found in the library's module globals (a locked, correctly keyed cache is a
    perfectly good design): a managed thread that finds the lock taken blocks in LOGICAL time, so that pre-empting its holder
    in the middle of the critical section cannot deadlock the harness.  Unmanaged threads use the real lock underneath."""

    def __init__(self, reentrant=False):
        self._real = threading.RLock() if reentrant else threading.Lock()
        self._reentrant = reentrant
        self._owner = None
        self._count = 0

    def _sched(self):
        s = SchedQueue.current_scheduler
        return s if s is not None and s.managed() else None

    def acquire(self, blocking=True, timeout=-1):
        s = self._sched()
        if s is None:
            return self._real.acquire(blocking, timeout)
        me = s.me()
        s.yield_point("lock-acquire")
        if self._reentrant and self._owner is me:
            self._count += 1
            return True
        while self._owner is not None:
            if not blocking:
                return False
            me.status = BLOCKED_COND
            me.cond = lambda: self._owner is None
            me.may_time_out = timeout is not None and timeout >= 0
            me.timeout_fired = False
            try:
                s._switch(me)
            finally:
                me.status = RUNNABLE
                me.cond = None
            if me.timeout_fired:
                me.timeout_fired = False
                if self._owner is not None:
                    return False
        self._owner = me
        self._count = 1
        return True

    def release(self):
        s = self._sched()
        if s is None and self._owner is None:
            return self._real.release()
        self._count -= 1
        if self._count <= 0:
            self._owner = None
            self._count = 0

    def locked(self):
        return self._owner is not None or (not self._reentrant and self._real.locked())

    def __enter__(self):
        self.acquire()
        return self

    def __exit__(self, *a):
        self.release()


class SchedRLock(SchedLock):
    def __init__(self):
        super().__init__(reentrant=True)


class SchedCondition:
    """Drop-in for threading.Condition (a deque + condition variable is a perfectly good mailbox): waiting happens in
    logical time, a timed wait may time out as a scheduling decision.  notify() wakes every waiter (a wake-up without a
    change of state is allowed: waiters re-check their predicate, as wait_for does)."""

    def __init__(self, lock=None):
        self._lock = lock if isinstance(lock, SchedLock) else SchedRLock()
        self._epoch = 0
        self._realcond = threading.Condition()

    def _sched(self):
        s = SchedQueue.current_scheduler
        return s if s is not None and s.managed() else None

    def acquire(self, *a, **k):
        if self._sched() is None:
            return self._realcond.acquire(*a, **k)
        return self._lock.acquire(*a, **k)

    def release(self):
        if self._sched() is None:
            return self._realcond.release()
        return self._lock.release()

    def __enter__(self):
        self.acquire()
        return self

    def __exit__(self, *a):
        self.release()

    def wait(self, timeout=None):
        s = self._sched()
        if s is None:
            return self._realcond.wait(timeout)
        me = s.me()
        if self._lock._owner is not me:
            raise RuntimeError("cannot wait on un-acquired lock")
        count, self._lock._count, self._lock._owner = self._lock._count, 0, None
        epoch = self._epoch
        me.status = BLOCKED_COND
        me.cond = lambda: self._epoch != epoch
        me.may_time_out = timeout is not None
        me.timeout_fired = False
        try:
            s._switch(me)
        finally:
            me.status = RUNNABLE
            me.cond = None
        fired = me.timeout_fired
        me.timeout_fired = False
        notified = self._epoch != epoch
        if notified:
            s.last_progress = s.steps  # a waiter got what it was waiting for (the counterpart of a delivered get)
        self._lock.acquire()
        self._lock._count = count
        return notified or not fired

    def wait_for(self, predicate, timeout=None):
        result = predicate()
        budget = 0
        while not result:
            if timeout is not None and budget:
                break
            notified = self.wait(timeout)
            result = predicate()
            if not notified:
                budget = 1
        if result:
            s_ = self._sched()
            if s_ is not None:
                s_.last_progress = s_.steps  # the condition waited for holds: something was produced for this waiter
        return result

    def notify(self, n=1):
        s = self._sched()
        if s is None:
            return self._realcond.notify(n)
        self._epoch += 1
        s.last_progress = s.steps

    def notify_all(self):
        self.notify()

    notifyAll = notify_all
