"""Systematic schedule enumeration with a bound on the number of deviations
(context bounding, Musuvathi & Qadeer): the default policy keeps the running
thread running (else the first runnable thread in registration order; a
queue-wait timeout only fires by default when nothing else is enabled); a
schedule is identified by the set of steps at which it deviates from that
policy and by which alternative it takes there.  All schedules with at most
k deviations are enumerated depth-first.  This relies on the scheduled runs
being deterministic functions of their decisions (checked by `selftest`)."""

from .strategies import Base


class Deviations(Base):
    name = "systematic"

    def __init__(self, devs):
        super().__init__(0, 0)
        self.devs = dict(devs)  # step index -> rank (1-based) among the non-default enabled actions
        self.n_options = []  # per step: number of enabled actions
        self.infeasible = False
        self.step = 0

    def default(self, enabled, me):
        for i, (st, a) in enumerate(enabled):
            if st is me and a == "run":
                return i
        for i, (st, a) in enumerate(enabled):
            if a == "run":
                return i
        return 0

    def choose(self, sched, enabled, me):
        d = self.default(enabled, me)
        self.n_options.append(len(enabled))
        i = self.step
        self.step += 1
        rank = self.devs.get(i)
        if rank is None:
            return d
        others = [k for k in range(len(enabled)) if k != d]
        if rank - 1 < len(others):
            return others[rank - 1]
        self.infeasible = True
        return d


def enumerate_schedules(run_fn, max_deviations, out_of_budget=lambda: False, max_runs=None):
    """run_fn(strategy) executes one scheduled run and returns anything; yields
    (devs, strategy, result) for every schedule with <= max_deviations
    deviations.  Returns (via StopIteration value semantics not used) nothing;
    the caller counts.  Enumeration order: depth-first, earliest deviation first."""
    runs = 0
    stack = [dict()]
    complete = True
    while stack:
        devs = stack.pop()
        if out_of_budget() or (max_runs is not None and runs >= max_runs):
            complete = False
            break
        strat = Deviations(devs)
        result = run_fn(strat)
        runs += 1
        yield devs, strat, result
        if strat.infeasible:
            continue
        if len(devs) < max_deviations:
            last = max(devs) if devs else -1
            # children: one more deviation at a later step of THIS run
            children = []
            for j in range(last + 1, len(strat.n_options)):
                for rank in range(1, strat.n_options[j]):
                    c = dict(devs)
                    c[j] = rank
                    children.append(c)
            stack.extend(reversed(children))
    enumerate_schedules.last_complete = complete
    enumerate_schedules.last_runs = runs
