"""Shard execution context: what a property module uses to report what its
monitors observed.  One Ctx lives in one shard (child process)."""

import hashlib
import json
import os
import random
import struct
import time


def stable_hash(obj):
    """64-bit hash of a canonical JSON rendering (independent of PYTHONHASHSEED)."""
    if not isinstance(obj, (bytes, str)):
        obj = json.dumps(obj, sort_keys=True, default=repr, separators=(",", ":"))
    if isinstance(obj, str):
        obj = obj.encode("utf-8", "surrogatepass")
    return struct.unpack("<Q", hashlib.blake2b(obj, digest_size=8).digest())[0]


class Budget(Exception):
    """Raised inside a shard when its time budget is exhausted."""


def scratch_dir(ctx, prefix):
    """The directory a shard writes its outputs to.  One shard in four puts it on ANOTHER file system than the one temporary
    files live on (here /dev/shm, when it is there and writable): a rename from one to the other is not possible, a hard link
    neither - what the library writes ends up complete all the same."""
    import tempfile

    if ctx.shard % 4 == 3 and not ctx.replay:
        try:
            if os.path.isdir("/dev/shm") and os.access("/dev/shm", os.W_OK) and os.stat("/dev/shm").st_dev != os.stat(tempfile.gettempdir()).st_dev:
                d = tempfile.mkdtemp(prefix=prefix, dir="/dev/shm")
                ctx.count("shards_writing_to_another_file_system")
                ctx.other_fs = True
                return d
        except OSError:
            pass
    return tempfile.mkdtemp(prefix=prefix)


def replay_by_index(ctx, mod, case):
    """Generic replay for workloads that are a seeded stream of cases: regenerate the stream of the recorded shard up to
    the recorded index and keep only what that case reports."""
    info = case.get("replay")
    if not info:
        return False
    sub = Ctx(ctx.prop, ctx.tier, info["seed"], info["shard"], info["nshards"], 3600, replay=True)
    mod.run_shard(sub, upto=info["i"])
    for key, v in sub.violations.items():
        for w in v["witnesses"]:
            if w.get("case", {}).get("replay", {}).get("i") == info["i"]:
                ctx.violation(key, w)
    return True


class Ctx:
    MAX_WITNESSES_PER_KEY = 3
    MAX_SAMPLES = 4

    def __init__(self, prop, tier, seed, shard, nshards, budget_s, replay=False):
        self.prop = prop
        self.tier = tier
        self.seed = seed
        self.shard = shard
        self.nshards = nshards
        self.t0 = time.monotonic()
        self.deadline = self.t0 + budget_s
        self.replay = replay
        self.evaluations = 0
        self.nontrivial = set()  # 64-bit hashes of distinct non-trivial cases
        self.counters = {}
        self.sets = {}  # name -> set of small hashable values (distinct things seen)
        self.samples = []
        self.violations = {}  # mechanism key -> {"count": n, "witnesses": [...]}
        self.notes = []
        self.truncated_by_time = False
        self._case_no = 0
        self.shard_env = ""  # "python-O" | "debug-logging" | "" : the process environment this shard runs in
        self.replay_info = None  # {"shard":..,"nshards":..,"seed":..,"i":..} set by workloads that are replayed by index

    # -- randomness -------------------------------------------------------
    def rng(self, stream=""):
        return random.Random(f"{self.seed}/{self.prop}/{self.shard}/{self.nshards}/{stream}")

    def mine(self, index):
        """Partition an enumerated space between shards."""
        return index % self.nshards == self.shard

    # -- time -------------------------------------------------------------
    def time_left(self):
        return self.deadline - time.monotonic()

    def phase_over(self, fraction):
        """True once `fraction` of the shard's time budget is used: bulk loops stop there so that the workload classes placed
        after them always get their share (an unrun class makes the check inconclusive)."""
        if time.monotonic() > self.t0 + fraction * (self.deadline - self.t0):
            self.truncated_by_time = True
            return True
        return False

    def out_of_time(self):
        if time.monotonic() > self.deadline:
            self.truncated_by_time = True
            return True
        return False

    # -- reporting --------------------------------------------------------
    def case(self, key, nontrivial=True, n=1):
        """One execution of the real code under the monitors.  `key` identifies
        the case (anything JSON-able or bytes/str); `nontrivial` says whether the
        monitored behaviour actually occurred in it."""
        self.evaluations += n
        if nontrivial:
            self.nontrivial.add(key if isinstance(key, int) else stable_hash(key))

    def count(self, name, n=1):
        self.counters[name] = self.counters.get(name, 0) + n

    def maxi(self, name, v):
        k = "max:" + name
        if v > self.counters.get(k, -(1 << 62)):
            self.counters[k] = v

    def seen(self, name, value):
        s = self.sets.setdefault(name, set())
        if len(s) < 200000:
            s.add(value)

    def sample(self, obj, force=False):
        if force or len(self.samples) < self.MAX_SAMPLES:
            self.samples.append(obj)

    def want_sample(self):
        return len(self.samples) < self.MAX_SAMPLES

    def violation(self, key, witness):
        """key: mechanism key (structure of the failure, never a seed or hash).
        witness: JSON-able dict holding the case, what was observed and what
        was expected."""
        if self.replay_info is not None and isinstance(witness, dict):
            # lets `./run replay` regenerate exactly this case from the seeded stream
            c = witness.setdefault("case", {})
            if isinstance(c, dict):
                c.setdefault("replay", dict(self.replay_info))
        if getattr(self, "vclock_bindings", None) and isinstance(witness, dict):
            witness.setdefault("virtual_clock", {"seed": self.seed * 1000 + self.shard, "bindings": self.vclock_bindings})
        if getattr(self, "hash_seed", "") not in ("", "0") and isinstance(witness, dict):
            witness.setdefault("hash_seed", self.hash_seed)
        if self.shard_env and isinstance(witness, dict):
            witness.setdefault("process_environment", self.shard_env)
        v = self.violations.setdefault(key, {"count": 0, "witnesses": []})
        v["count"] += 1
        if len(v["witnesses"]) < self.MAX_WITNESSES_PER_KEY:
            v["witnesses"].append(witness)

    def note(self, text):
        if text not in self.notes and len(self.notes) < 50:
            self.notes.append(text)

    # -- serialisation ----------------------------------------------------
    def dump(self, path):
        import numpy as np

        hashes = np.fromiter(self.nontrivial, dtype=np.uint64, count=len(self.nontrivial))
        np.save(path + ".hashes.npy", hashes)
        out = {
            "prop": self.prop,
            "shard": self.shard,
            "evaluations": self.evaluations,
            "counters": self.counters,
            "sets": {k: sorted(map(_jsonable, v), key=repr)[:100000] for k, v in self.sets.items()},
            "samples": self.samples,
            "violations": self.violations,
            "notes": self.notes,
            "truncated_by_time": self.truncated_by_time,
            "wall_s": time.monotonic() - self.t0,
        }
        tmp = path + ".tmp"
        with open(tmp, "w") as fp:
            json.dump(out, fp, default=_jsonable)
        os.replace(tmp, path)


def _jsonable(o):
    if isinstance(o, bytes):
        return {"hex": o.hex()}
    if isinstance(o, (set, frozenset, tuple)):
        return list(o)
    try:
        import numpy as np

        if isinstance(o, np.generic):
            return o.item()
        if isinstance(o, np.ndarray):
            return o.tolist()
    except Exception:
        pass
    return repr(o)
