"""Build and validate evidence/<id>.json (schema: /root/.vp/EVIDENCE.schema.json).
A light structural validator is built in (jsonschema is not installed beside
the repository's interpreter); `python -m vf selftest` additionally validates
with jsonschema when python3-vt is available."""

import json
import os

LEVELS = ("exploration", "fault_enumeration", "model_checking", "proof", "translation_validation", "other")


def build(mod, pid, tier, seed, merged, wall, reasons, dead, violations, known):
    sets = {k: len(v) for k, v in merged["sets"].items()}
    cov = {
        "evaluations": merged["evaluations"],
        "distinct_nontrivial": merged["distinct_nontrivial"],
        "rule": mod.RULE,
        "samples": merged["samples"][:8] or ["<no sample recorded>"],
        "exhaustive": bool(getattr(mod, "EXHAUSTIVE", False)),
        "monitor_counters": dict(sorted(merged["counters"].items())),
        "distinct_seen": sets,
        "truncated_by_time": merged["truncated_by_time"],
        "shard_wall_s": merged["shard_wall_s"],
        "verdict": "violated" if violations else ("inconclusive" if reasons else "held_on_observed"),
        "inconclusive_reasons": reasons,
        "known_findings_seen": [{"key": k, "count": c} for k, c in known],
        "notes": merged["notes"],
    }
    extra = getattr(mod, "evidence_extra", None)
    if extra:
        cov.update(extra(merged, tier))
    return {
        "property_id": pid,
        "tier": tier,
        "seed": int(seed),
        "level": mod.LEVEL,
        "coverage": cov,
        "assumptions": list(mod.ASSUMPTIONS),
        "wall_s": round(wall, 3),
        "violations": int(violations),
    }


def validate(ev):
    errs = []
    for k in ("property_id", "tier", "seed", "level", "coverage", "wall_s"):
        if k not in ev:
            errs.append(f"missing {k}")
    if ev.get("tier") not in ("quick", "thorough"):
        errs.append("tier")
    if ev.get("level") not in LEVELS:
        errs.append("level")
    if not isinstance(ev.get("seed"), int):
        errs.append("seed not int")
    cov = ev.get("coverage", {})
    if ev.get("level") in ("exploration", "fault_enumeration"):
        if not (isinstance(cov.get("evaluations"), int) and cov["evaluations"] >= 1):
            errs.append("evaluations < 1")
        if not (isinstance(cov.get("distinct_nontrivial"), int) and cov["distinct_nontrivial"] >= 2):
            errs.append("distinct_nontrivial < 2")
        if not isinstance(cov.get("rule"), str):
            errs.append("rule")
        if not (isinstance(cov.get("samples"), list) and len(cov["samples"]) >= 1):
            errs.append("samples")
    return errs


def write(path, ev):
    os.makedirs(os.path.dirname(path), exist_ok=True)
    errs = validate(ev)
    if errs:
        # still written (so the reader sees what happened) but flagged
        ev.setdefault("coverage", {})["schema_problems"] = errs
    tmp = path + ".tmp"
    with open(tmp, "w") as fp:
        json.dump(ev, fp, indent=1, default=repr)
        fp.write("\n")
    os.replace(tmp, path)
