#!/bin/sh
# ./sweep.sh <tier> <seed> [ids...]  : run checks, print one line each (used to hunt false alarms before registering)
TIER="$1"; SEED="$2"; shift; shift
IDS="${@:-C01 C02 C03 C04 C05 C06 C07 C08 C09 C10 C11 C12 C13 C14 C15 C16 C17 C18 C19 C20}"
for id in $IDS; do
  out="$(VERIF_SEED=$SEED VERIF_EVIDENCE_DIR=/tmp/sweep-evidence ./run $id $TIER 2>&1)"; rc=$?
  echo "$id seed=$SEED tier=$TIER rc=$rc $(echo "$out" | grep -E '^\[' | sed 's/ ::.*//')"
  if [ $rc -ne 0 ]; then echo "$out" | grep -E "VIOLATION|mechanism|INCONCLUSIVE" | head -6 | cut -c1-400; fi
done
